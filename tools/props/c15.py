"""C15 -- connections live while referenced, expire 32 s after last use, never reused dead."""

ID = "C15"
COQ_PROOF_TARGETS = ["Props/C15.vo"]
COQ_MODEL_TARGETS = ["Extract/ExC15.vo"]
CLAIM_TEXT = ("Theorems (coq/Props/C15.v, no axioms) over the transition-system model of the managed-transport bookkeeping and the receive task: "
              "an invariant (map entry and task state agree; handles of the current generation exist only for a Used entry) is preserved by "
              "every external event and every scheduling step, hence for all histories of event groups the set_used panic is unreachable; a "
              "referenced connection is never removed by the passage of time; the idle period is a fresh 32 s from the release of the last "
              "handle and the connection is unregistered exactly at that deadline, immediately on peer close or framing error; a removed "
              "connection is never selected, an idle one is reused and becomes referenced; a message on an unreferenced connection - also in "
              "the instant the last handle is dropped - is delivered exactly once and revives the connection. Correspondence: histories of "
              "clone/drop/select/frame/close/garbage/time groups against the real endpoint with in-memory stream transports (map size, "
              "delivered count, closed state of the pipe, reuse vs new connection), instants around the 32 s edge, several select! seeds.")
CLAIM_NOTE = ("Trusted: Coq kernel; hand-written model Model/C15.v validated by differential runs; tokio semantics assumed: select! with `biased` "
              "polls in source order, an mpsc receiver becomes ready when all senders are dropped, the paused clock advances only when idle. "
              "Partial: fairness of the runtime and the real TCP/TLS stacks are outside the model; an inbound connection is never re-selected "
              "by the code (find_matching_idling_transport skips it), modelled by mapping a successful Select on an inbound connection to `new`.")
TRUSTED = [
    "Coq 8.16.1 kernel; no axioms",
    "hand-written model coq/Model/C15.v of managed.rs / streaming/mod.rs::receive_task / set_used / set_unused, validated by the correspondence run",
    "extraction (ExtrOcamlBasic only) + ocaml/util.ml + ocaml/c15_driver.ml",
    "Rust harness harness/src/{c15,stream_mock}.rs (DuplexStream-backed StreamingTransport, factory, listener); hook H3 (managed map size)",
]
ASSUMPTIONS = [
    "events of one group reach the connection before the receive task is polled again (the harness does not yield inside a group)",
    "time only advances in groups of their own (the harness sleeps, which lets the task run first)",
]
RULE = ("outgoing and accepted connections x seeded histories of groups over {clone, drop, select, frame, close, garbage} with 1..3 events "
        "per group (so that drops, frames and selects coincide between two polls of the task) x time steps from {1, 100, 31999, 32001, "
        "2, 40000} placed after reference events; each history under 3 select! seeds in thorough; non-trivial = the connection expires, "
        "is revived, reused or closed at least once; distinct = distinct case text")
PARTIAL = ["inbound connections are never reused for new requests (as coded); scheduler fairness is assumed"]


def gen_history(rng, incoming):
    groups = []
    refs = 0 if incoming else 1
    closed = False
    for _ in range(rng.randrange(2, 9)):
        r = rng.random()
        if r < 0.35:
            groups.append("adv:%d" % rng.choice([1, 100, 31999, 32001, 2, 40000, 31998, 16000]))
            continue
        evs = []
        for _ in range(rng.choice([1, 1, 2, 2, 3])):
            c = rng.random()
            if c < 0.3 and refs > 0:
                evs.append("drop"); refs -= 1
            elif c < 0.4 and refs > 0:
                evs.append("clone"); refs += 1
            elif c < 0.7 and not closed:
                evs.append("frame")
            elif c < 0.78:
                evs.append("other")                     # a request to another destination scans the connection table
            elif c < 0.85 and not incoming:
                evs.append("select"); refs += 1      # if not reused the harness keeps the new handle separately
            elif c < 0.92 and not closed:
                evs.append("close"); closed = True
            elif c < 0.96 and not closed:
                evs.append("garbage")
            elif refs > 0:
                evs.append("drop"); refs -= 1
        if evs:
            groups.append(",".join(evs))
    return groups


def gen_cases(rng, tier):
    cases = []
    n = 300 if tier == "quick" else 5000
    for i in range(n):
        incoming = rng.random() < 0.3
        g = gen_history(rng, incoming)
        if g:
            cases.append(["l%d" % i, "c15", "in" if incoming else "out", ";".join(g)])
    # the edges, explicitly
    k = 0
    for init in ("out", "in"):
        for pre in (["drop"] if init == "out" else []) + [[]]:
            for d in (31999, 32001):
                g = (["drop"] if pre else []) + ["adv:%d" % d, "adv:2", "frame", "adv:31999", "adv:2"]
                cases.append(["e%d" % k, "c15", init, ";".join(g)]); k += 1
    for init in ("out", "in"):
        pre = "drop;" if init == "out" else ""
        for g in (pre + "adv:20000;other;adv:11999", pre + "adv:20000;other;adv:12001", pre + "adv:31999;other;adv:2", pre + "adv:10000;other;adv:10000;other;adv:12001",
                  pre + "adv:20000;other,other;adv:13000;adv:20000"):
            cases.append(["e%d" % k, "c15", init, g]); k += 1
    for g in ("drop,frame", "drop,frame,frame", "drop,close", "drop,garbage", "drop;adv:5;select;drop,frame", "clone,drop,drop,frame",
              "drop,select", "frame,drop;adv:32001", "drop;adv:31999;frame;adv:31999;adv:2", "close;select", "garbage;select;drop",
              "drop;adv:32001;select", "drop;adv:31999;select;adv:40000;drop;adv:32001",
              "drop,select;adv:32001", "drop,select;adv:40000;frame", "drop,select;adv:31999;adv:2;select", "drop,select,drop;adv:32001"):
        cases.append(["e%d" % k, "c15", "out", g]); k += 1
    # a connection accepted long after the listener started waiting (or after an earlier one): its 32 s run from the accept
    for late in (20000, 33000, 70000):
        for g in ("adv:31999;adv:2", "adv:15000;frame;adv:31999;adv:2", "adv:100;frame;adv:31999;adv:2;adv:40000", "adv:31000;frame,frame;adv:31999;adv:2"):
            cases.append(["e%d" % k, "c15", "in@%d" % late, g]); k += 1
    # a peer whose address is an IPv4-mapped IPv6 address (an IPv4 host seen through a dual-stack socket): the connection lives, expires,
    # is revived and reused like any other
    for kind, pre in (("inm", ""), ("outm", "drop;")):
        for g in (pre + "adv:31999;adv:2", pre + "adv:100;frame;adv:31999;adv:2", pre + "adv:15000;frame,frame;adv:20000;frame;adv:32001"):
            cases.append(["e%d" % k, "c15", kind, g]); k += 1
    cases.append(["e%d" % k, "c15", "outm", "frame;drop;adv:10;select;adv:100;drop;adv:32001"]); k += 1
    cases.append(["e%d" % k, "c15", "outm", "clone,frame;drop,drop;adv:31999;frame;adv:31999;adv:2"]); k += 1
    # a framing error of the other kind: a head that grows past 4096 bytes inside one unterminated line - the connection is closed and
    # unregistered at once (while handles are alive, too) and never selected again
    for g in ("bighead;adv:5;select", "clone,bighead;adv:100;select;drop", "frame,bighead;adv:10", "drop;adv:5;bighead;adv:10;select", "frame;bighead;adv:1;other;adv:5;select"):
        cases.append(["e%d" % k, "c15", "out", g]); k += 1
    cases.append(["e%d" % k, "c15", "in", "bighead;adv:10"]); k += 1
    # an outgoing connection whose stream reports another peer address than the one that was dialled (connect through the unspecified
    # address, a tunnelling factory): messages are delivered, it is closed 32 s after the last use like any other
    for g in ("frame;drop;adv:31999;adv:2", "drop;frame;adv:31999;adv:2;adv:31999", "drop;adv:32001", "clone,frame;drop,drop;adv:10;frame;adv:31999;adv:2", "frame,close", "drop;adv:100;close"):
        cases.append(["e%d" % k, "c15", "outalias", g]); k += 1
    # a message that becomes readable half a millisecond before the 32 s are over (the runtime sees it in the tick in which the idle
    # timer fires): it arrived in time, it is delivered and restarts the 32 s; half a millisecond after, the connection is gone
    for init in ("out", "in"):
        pre = "drop;" if init == "out" else ""
        for g in (pre + "gate:31999500,frame;adv:31999;adv:1;adv:10;adv:31980;adv:30",
                  pre + "adv:7;gate:31999500,frame;adv:31999;adv:1;adv:31990;adv:20",
                  pre + "gate:32000500,frame;adv:31999;adv:1;adv:10",
                  pre + "gate:15000500,frame;adv:15000;adv:1;adv:31990;adv:20"):
            cases.append(["e%d" % k, "c15", init, g]); k += 1
    return cases


def model_case(case, impl):
    """a selection for an unrelated destination does not concern the connection under test: the model does not see it"""
    groups = []
    rem = None      # microseconds until a gated message becomes readable: the model sees it as a message at that millisecond
    for g in case[3].split(";"):
        evs = []
        for e in [("garbage" if e == "bighead" else e) for e in g.split(",") if e and e != "other"]:
            if e.startswith("gate:"):
                rem = int(e[5:])
            elif e == "frame" and rem is not None:
                pass
            elif e.startswith("adv:") and rem is not None:
                x = int(e[4:])
                if x * 1000 < rem:
                    rem -= x * 1000
                    evs.append(e)
                else:
                    a = rem // 1000
                    evs += (["adv:%d" % a] if a else []) + ["frame", "adv:%d" % (x - a)]
                    rem = None
            else:
                evs.append(e)
        groups.append(",".join(evs) if evs else "adv:0")
    return case[:2] + ["out" if case[2] in ("outalias", "outm") else ("in" if (case[2].startswith("in@") or case[2] == "inm") else case[2])] + [";".join(groups)] + case[4:]


def _sim_track(case):
    """reference tracking of what the property promises, written from the statement:
    returns per group (may_be_registered, must_be_registered) flags is not attempted; the oracle below
    checks the directly observable promises only"""
    return None


def oracle(case, impl):
    if "PANIC" in impl:
        return ["panic in the transport task: " + impl[-300:]]
    groups = [g for g in case[3].split(";") if g]
    obs = impl.split(";")
    if len(obs) != len(groups):
        return ["malformed observation"]
    refs = 0 if case[2].startswith("in") else 1
    frames_sent = 0
    closed = False
    gone = False
    idle_since = 0 if case[2].startswith("in") else None
    now = 0
    prev_d = 0
    gate = None         # instant (ms, may be fractional) at which what the peer wrote becomes readable
    pending = []
    # "once the last handle is dropped it is closed and unregistered after 32 s without traffic":
    # idle_since = instant of the last drop-to-zero or of the last message on the unreferenced connection
    for g, o in zip(groups, obs):
        f = dict(x.split("=", 1) for x in o.split())
        m, d = int(f["m"]), int(f["d"])
        sel = f.get("sel", "")
        si = 0
        garbage = False
        for e in g.split(","):
            if e == "drop":
                if refs == 1:
                    idle_since = now
                refs = max(0, refs - 1)
            elif e == "clone" and refs > 0:
                refs += 1
            elif e.startswith("gate:"):
                gate = now + int(e[5:]) / 1000.0
            elif e == "frame" and not closed and gate is not None and gate > now:
                pending.append(gate)
            elif e == "frame" and not closed:
                frames_sent += 1
                if refs == 0:
                    idle_since = now
            elif e == "close":
                closed = True
            elif e in ("garbage", "bighead"):
                garbage = True
            elif e.startswith("adv:"):
                now += int(e[4:])
                for a in [a for a in pending if a <= now]:
                    pending.remove(a)
                    if refs == 0 and idle_since is not None and a - idle_since >= 32000:
                        gone = True          # it came too late: the connection had been idle for 32 s
                    else:
                        frames_sent += 1
                        if refs == 0:
                            idle_since = a
            elif e == "select":
                r = sel[si] if si < len(sel) else "?"
                si += 1
                if r == "R":
                    if gone:
                        return ["a connection that had been closed/unregistered was selected for a new request"]
                    refs += 1
                    idle_since = None
        # delivered: never more than sent, never decreasing, and everything sent before close/garbage is delivered
        if d > frames_sent or d < prev_d:
            return ["delivered count %d with %d messages written" % (d, frames_sent)]
        if not garbage and not gone and d != frames_sent:
            return ["%d of %d messages written to the connection were delivered" % (d, frames_sent)]
        prev_d = d
        if closed or garbage:
            gone = True
        if refs == 0 and idle_since is not None and not closed and not garbage and not gone:
            idle = now - idle_since
            if idle < 32000 and (f["c"] == "1" or m == 0):
                return ["the unreferenced connection was closed %d ms after its last use (handle drop / message), before the 32 s are over" % idle]
            if idle > 32000 and f["c"] != "1":
                return ["the unreferenced connection is still open %d ms after its last use" % idle]
        if f["c"] == "1":
            gone = True
            if refs > 0 and not closed and not garbage:
                return ["the connection was closed while %d handle(s) still exist" % refs]
    return []


def nontrivial(case, impl):
    if "c=1" in impl or "sel=R" in impl or "drop,frame" in case[3] or "close" in case[3]:
        return case[2] + "|" + case[3]
    return None


def distribution(cases, impl):
    import collections
    h = collections.Counter()
    for c in cases:
        for g in c[3].split(";"):
            h[len(g.split(","))] += 1
    return {"events_per_group": {str(k): v for k, v in sorted(h.items())}}
