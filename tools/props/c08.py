"""C08 -- every request is answered exactly once; ACKs and responses never are."""
import collections
import importlib
import itertools
import re

ID = "C08"
COQ_PROOF_TARGETS = ["Props/C08.vo"]
COQ_MODEL_TARGETS = ["Extract/ExC08.vo"]
HARNESS_TIMEOUT = 3000
CLAIM_TEXT = ("Theorems (coq/Props/C08.v, no axioms) over the model of the endpoint's layer loop, the dialog layer's CSeq machine (Model/C10) "
              "and usage loop, and the two default handlers, for EVERY layer stack, dialog table, backlog and usage list: a non-ACK request "
              "gets exactly one final response with its identity in the dispatch that handles it, or is parked behind a CSeq gap with none "
              "yet (C08_exactly_one, C08_finals_count, C08_handled); ACKs are never answered (C08_ack_silent); unwanted requests get 481, "
              "in-dialog ones no usage wants 404, INVITE answers go through an INVITE server transaction (C08_default_481, "
              "C08_dialog_answers); a layer that inspects without taking passes the request on, a taker ends the loop, layers are consulted "
              "in registration order (C08_inspect_passes_on, C08_taker_ends_loop, C08_registration_order); and over WHOLE histories "
              "(C08_history_exactly_once, C08_history_at_most_once): from dialogs with empty backlogs, any list of requests with distinct "
              "identities and, per dialog, distinct CSeq numbers, in any order, leaves every non-ACK request with exactly one final response "
              "or still parked with none, no ACK answered and no response for an identity never received. Correspondence: stacks of up to 3 "
              "recording layers (take/ignore per method) around the real DialogLayer, dialogs with 0..2 recording usages, all methods incl. "
              "an unknown one, in/out of dialog, CSeq permutations with gaps, stray responses, concurrent groups under seeded schedules: "
              "offers per layer/usage and the responses on the wire (branch, CSeq, code, retransmission of INVITE failures) against the "
              "extracted model; whole user agents (dialog + invite layers, acceptor) under C12's timed scripts; an oracle written from the "
              "property text decides each history.")
CLAIM_NOTE = ("Trusted: Coq kernel; hand-written model Model/C08.v (+Model/C10.v) validated by differential runs; a taking layer/usage is assumed "
              "to answer once (true of the harness layers; the invite usage's own answers are decided by C12). Requests parked behind a CSeq "
              "gap that is never filled stay unanswered: known finding F16a.")
TRUSTED = [
    "Coq 8.16.1 kernel; no axioms",
    "hand-written models coq/Model/C08.v and Model/C10.v",
    "extraction (ExtrOcamlBasic only) + ocaml/util.ml + ocaml/c08_driver.ml",
    "Rust harness harness/src/c08.rs (mock datagram transport, paused clock, recording layers/usages that answer 486/200 when they take)",
]
ASSUMPTIONS = [
    "a layer or usage that takes a request answers it exactly once through the transaction it creates",
    "retransmissions of a request are absorbed by its server transaction (C06) and are not part of these histories",
]
RULE = ("stack layouts (D at every position among 0..3 recording layers, masks from a fixed set incl. empty and take-all) x dialog tables "
        "(0..2 dialogs, usage masks incl. none) x request sequences (9 methods, in-dialog with consecutive CSeq numbers in permuted order, "
        "gaps, lower numbers, unknown dialog, out of dialog, stray responses) x concurrent groups; non-trivial = at least one request "
        "passes a layer that ignores it; distinct = distinct (stack, dialogs, events)")
PARTIAL = ["two different requests of one dialog with the same CSeq number ahead of a gap overwrite each other in the backlog (the model shows it, "
           "the history theorem excludes it by hypothesis); concurrency of dispatches is exercised by the seeded concurrent groups, not proved"]

METHODS = "iabconumx"
NAMES = {"i": "INVITE", "a": "ACK", "b": "BYE", "c": "CANCEL", "o": "OPTIONS", "n": "INFO", "u": "UPDATE", "m": "MESSAGE", "x": "FOO"}
MASKS = ["", "i", "o", "b", "a", "ia", "c", "bn", "x", METHODS]
UMASKS = ["", "b", "i", "a", "n", "ib", METHODS]


def _events_for(rng, ndialogs, peers, long=False):
    """a request history; returns list of groups (each a list of items)"""
    rid = itertools.count(1)
    groups = []
    nxt = {d: peers[d] + 1 for d in range(ndialogs)}
    n = rng.randrange(3, 9 if not long else 16)
    for _ in range(n):
        kind = rng.random()
        if kind < 0.35 and ndialogs:
            # a run of consecutive in-dialog numbers, permuted (gap then fill), sometimes a number left out
            d = rng.randrange(ndialogs)
            k = rng.randrange(1, 4)
            nums = list(range(nxt[d], nxt[d] + k))
            nxt[d] += k
            rng.shuffle(nums)
            if rng.random() < 0.12 and len(nums) > 1:
                nums.pop(rng.randrange(len(nums)))      # a gap that is never filled
            for c in nums:
                groups.append(["Q:%s:%d:%d:r%d" % (rng.choice(METHODS), d, c, next(rid))])
        elif kind < 0.45 and ndialogs:
            d = rng.randrange(ndialogs)
            c = max(1, nxt[d] - rng.randrange(1, 4))       # lower than expected (ACK for the INVITE, or a late request)
            groups.append(["Q:%s:%d:%d:r%d" % (rng.choice("aab" + METHODS), d, c, next(rid))])
        elif kind < 0.55:
            groups.append(["Q:%s:%d:%d:r%d" % (rng.choice(METHODS), 7, rng.randrange(1, 50), next(rid))])   # To-tag of no dialog
        elif kind < 0.65:
            groups.append(["P:%d:r%d" % (rng.choice([100, 180, 200, 404, 487, 600]), next(rid))])
        elif kind < 0.8:
            # concurrent group: out-of-dialog requests and at most one request per dialog
            g = ["Q:%s:-:%d:r%d" % (rng.choice(METHODS), rng.randrange(1, 99), next(rid)) for _ in range(rng.randrange(2, 5))]
            for d in range(ndialogs):
                if rng.random() < 0.5:
                    g.append("Q:%s:%d:%d:r%d" % (rng.choice(METHODS), d, nxt[d], next(rid)))
                    nxt[d] += 1
            rng.shuffle(g)
            groups.append(g)
        elif kind < 0.9:
            groups.append(["Q:%s:-:%d:r%d" % (rng.choice(METHODS), rng.randrange(1, 99), next(rid))])
        else:
            # a legacy client: several requests that share one cookie-less Via branch (RFC 2543 matching keeps them apart)
            m = rng.choice("onmx")
            for c in range(1, rng.randrange(3, 5)):
                groups.append(["G:%s:-:%d:r%d" % (m if rng.random() < 0.7 else rng.choice("onmxi"), c, next(rid))])
    return groups


def _dup_cases():
    """two different requests of one dialog carrying the same CSeq number ahead of a gap, then the gap is filled"""
    out = []
    k = 0
    for stack in (["D"], ["R", "D", "Rbo"], ["D", "R" + METHODS]):
        for us in ("~", "b", "n/b"):
            for m1, m2 in (("b", "o"), ("o", "b"), ("i", "b"), ("b", "b"), ("n", "a")):
                groups = [["Q:%s:0:103:r1" % m1], ["Q:%s:0:103:r2" % m2], ["Q:b:0:101:r3"], ["Q:o:0:102:r4"], ["Q:n:0:104:r5"]]
                out.append(_case("dup%d" % k, stack, ["100:%s" % us], groups, 1)); k += 1
    return out


def _case(cid, stack, dialogs, groups, seed):
    return [cid, "c08", ";".join(stack), ";".join(dialogs) if dialogs else "-", ",".join("+".join(g) for g in groups), str(seed)]


def gen_cases(rng, tier):
    cases = []
    n = 0
    # enumerated grid: every method x small stacks x in/out of dialog
    stacks = []
    for k in range(0, 3):
        for masks in itertools.product(["", "i", METHODS, "bo"], repeat=k):
            for dpos in [None] + list(range(k + 1)):
                st = ["R" + m for m in masks]
                if dpos is not None:
                    st.insert(dpos, "D")
                stacks.append(st)
    dialog_sets = [[], ["10:~"], ["10:"], ["10:b"], ["4294967270:i/n"], ["10:" + METHODS], ["10:a/b", "20:n"]]
    grid = []
    for st in stacks:
        for ds in dialog_sets:
            if ds and "D" not in st:
                continue
            grid.append((st, ds))
    if tier == "quick":
        grid = rng.sample(grid, 70)
    for st, ds in grid:
        peers = [int(d.split(":")[0]) for d in ds]
        groups = []
        r = itertools.count(1)
        for m in METHODS:
            groups.append(["Q:%s:-:1:r%d" % (m, next(r))])
        for d in range(len(ds)):
            c = peers[d] + 1
            for m in METHODS:
                groups.append(["Q:%s:%d:%d:r%d" % (m, d, c, next(r))])
                c += 1
        groups.append(["P:200:r%d" % next(r)])
        cases.append(_case("g%d" % n, st, ds, groups, 1)); n += 1
    # random histories
    for i in range(150 if tier == "quick" else 4000):
        k = rng.randrange(0, 4)
        st = ["R" + rng.choice(MASKS) for _ in range(k)]
        nd = 0
        ds = []
        if rng.random() < 0.8:
            st.insert(rng.randrange(len(st) + 1), "D")
            nd = rng.randrange(0, 3)
            for _ in range(nd):
                nu = rng.randrange(0, 3)
                us = "/".join(rng.choice(UMASKS) for _ in range(nu)) if nu else "~"
                ds.append("%d:%s" % (rng.choice([1, 10, 100, 4294967270]), us))
        peers = [int(d.split(":")[0]) for d in ds]
        groups = _events_for(rng, nd, peers, long=(tier == "thorough" and i % 5 == 0))
        cases.append(_case("h%d" % i, st, ds, groups, rng.randrange(1, 10 ** 6)))
    # whole user agents: the acceptor / invite usage claims CANCEL, BYE, PRACK ... and has to answer each of them once,
    # also when the ACK for its INVITE answer never comes (the scripts of C12, which leave ACKs out in half of the cases)
    import importlib
    P12 = importlib.import_module("props.c12")
    src = [c for c in P12.gen_cases(rng.__class__(rng.randrange(1 << 30)), "quick") if c[2] == "uas" and c[6] in ("race", "rel1xx")]
    if tier == "quick":
        src = [c for k, c in enumerate(src) if k % 3 == 0 or ":bye" in c[4]]
    for k, c in enumerate(src):
        cases.append(["ua%d" % k, "c08", "ua", c[2], c[3], c[4], c[5]])
    # requests that reach the invite usage while the application's answer is still waiting for its ACK, or after it gave up waiting:
    # whoever cannot use the request hands it back and the stack answers it
    k = len(src)
    for script in ("0:inv,100:accept,1000:bye,90000:options", "0:inv,100:accept,31000:bye,90000:options", "0:inv,100:accept,1000:info,90000:options",
                   "0:inv,100:accept,1000:bye,2000:bye,90000:options", "0:inv,100:accept,40000:bye,90000:options", "0:inv,100:accept,200:ack,1000:bye,2000:bye,90000:options",
                   "0:inv,100:reject:486,1000:bye,90000:options", "0:inv,100:accept,1000:update,33000:info,90000:options"):
        cases.append(["ua%d" % k, "c08", "ua", "uas", "-", script, "1"]); k += 1
    # a PRACK the invite usage claims is answered once whenever it comes: in time, after the acceptor gave the wait up (64*T1 without a
    # PRACK), twice, and with a RAck that names nothing
    rel = "Supported: 100rel\r\n".encode().hex()
    for script in ("0:inv:%s,1000:provrel:183,1400:prack,90000:options" % rel, "0:inv:%s,1000:provrel:183,34000:prack,90000:options" % rel,
                   "0:inv:%s,1000:provrel:183,34000:prack,36000:reject:486,36500:ackf,120000:options" % rel,
                   "0:inv:%s,1000:provrel:183,1400:prack:wrong,1800:prack,90000:options" % rel, "0:inv:%s,1000:provrel:183,40000:prack:wrong,41000:prack,90000:options" % rel):
        cases.append(["ua%d" % k, "c08", "ua", "uas", "-", script, "1"]); k += 1
    cases += _dup_cases()
    # exactly one final response also where nothing is ever retransmitted: rejections and answers over a reliable transport, with the
    # ACK early, late or missing (over an unreliable transport the copies must be the same response)
    P06 = importlib.import_module("props.c06")
    j = 0
    for kind, code in (("inv", 481), ("inv", 486), ("ni", 200)):
        for rel in (1, 0):
            for t0 in (0, 137):
                for evs in ([], [(t0 + 1000, "A")], [(t0 + 31000, "A")], [(t0 + 33000, "A")]):
                    if kind == "ni" and evs:
                        continue
                    c = P06._case("srv%d" % j, kind, rel, code, t0, evs)
                    cases.append([c[0], "c08", "srv"] + c[2:]); j += 1
    # a non-INVITE request whose answers are lost keeps coming on the client's timer E schedule (0.5, 1.5, 3.5, 7.5, then every 4 s, for
    # 32 s): every copy is the one request - handed to the application once, answered with the one response
    E_SCHED = [500, 1500, 3500, 7500, 11500, 15500, 19500, 23500, 27500, 31500]
    for t0 in (3, 137, 2000):
        for code in (200, 481):
            for upto in (3500, 7500, 15500, 31500):
                evs = [(t, "R") for t in E_SCHED if t0 < t <= upto]
                c = P06._case("srv%d" % j, "ni", 0, code, t0, evs)
                cases.append([c[0], "c08", "srv"] + c[2:]); j += 1
    return cases


# ---------------------------------------------------------------- observation -> per-request summary
def model_case(case, impl):
    if case[2] in ("ua", "srv"):
        return [case[0], "c08", "", "-", "", "1"]        # no model run for the user-agent scenarios: decided by the oracle
    # a legacy client's requests (G) are out-of-dialog requests like any other for the model: RFC 2543 matching keeps them apart
    return case[:4] + [re.sub(r"(^|[,+])G:", r"\1Q:", case[4])] + case[5:]


def _ua_requests(script):
    """the non-ACK requests a user-agent script injects: (branch, method) in script order, as harness/src/ua.rs names them"""
    reqs = []
    k = 0
    for st in [x for x in script.split(",") if x]:
        a = st.split(":")[1:]
        if not a:
            continue
        ev = a[0]
        if ev == "inv":
            reqs.append(("z9hG4bKinvite1", "INVITE"))
        elif ev == "cancel":
            k += 1
            reqs.append(("z9hG4bKother%d" % k if (len(a) > 1 and a[1] == "x") else "z9hG4bKinvite1", "CANCEL"))
        elif ev in ("bye", "info", "update"):
            k += 1
            reqs.append(("z9hG4bK%s%d" % (ev, k), ev.upper()))
        elif ev == "reinv":
            k += 1
            reqs.append(("z9hG4bKreinv%d" % k, "INVITE"))
        elif ev == "prack":
            k += 1
            reqs.append(("z9hG4bKprack%d" % k, "PRACK"))
        elif ev == "options":
            k += 1
            reqs.append(("z9hG4bKopt%d" % k, "OPTIONS"))
        elif ev == "ack":
            k += 1
    return reqs


def _ua_oracle(case, impl):
    if "PANIC" in impl:
        return ["panic: " + impl[-300:]]
    impl = impl.replace("|branch=invite1|", "|branch=z9hG4bKinvite1|")      # a legacy caller's INVITE branch (setup lbranch)
    finals = collections.defaultdict(list)
    for m in re.finditer(r"W:SIP/2\.0_(\d+)_[^|]*\|cseq=(\d+)_(\w+)\|branch=([^|]*)\|\S*@(\d+)", impl):
        if int(m.group(1)) >= 200:
            finals[(m.group(4), m.group(3))].append(m.group(1))
    out = []
    script = case[5]
    evs = [st.split(":")[1:] for st in script.split(",") if st]
    # the pending INVITE gets its final from the application (accept / reject) or through a CANCEL that matches it / a BYE
    answered_by_app = any(a and (a[0] in ("accept", "reject", "bye") or (a[0] == "cancel" and len(a) == 1)) for a in evs)
    for (branch, meth) in _ua_requests(script):
        codes = finals.get((branch, meth), [])
        if meth == "INVITE":
            if len(set(codes)) > 1 or (branch == "z9hG4bKinvite1" and answered_by_app and not codes):
                out.append("INVITE %s received final responses %s, the property demands exactly one" % (branch, sorted(set(codes))))
            continue
        if len(codes) != 1:
            out.append("%s %s received %d final responses %s, the property demands exactly one" % (meth, branch, len(codes), codes))
    return out[:3]


def _summ_impl(s):
    per = collections.OrderedDict()
    for tok in s.split("\tPANIC")[0].split():
        if tok.startswith("L") or tok.startswith("U"):
            who, rid = tok.split(":")
            per.setdefault(rid, {"offers": [], "codes": [], "cseqs": set()})["offers"].append(who)
        elif tok.startswith("W:"):
            _, rid, code, cseq = tok.split(":", 3)
            e = per.setdefault(rid, {"offers": [], "codes": [], "cseqs": set()})
            e["codes"].append(code)
            e["cseqs"].add(cseq)
    return per


def _summ_model(s):
    per = collections.OrderedDict()
    for tok in s.split():
        if tok.startswith("L") or tok.startswith("U"):
            who, rid = tok.split(":")
            per.setdefault(rid, {"offers": [], "finals": [], "parked": False})["offers"].append(who)
        elif tok.startswith("F:"):
            _, rid, code, inv = tok.split(":")
            per.setdefault(rid, {"offers": [], "finals": [], "parked": False})["finals"].append((code, inv))
        elif tok.startswith("K:"):
            per.setdefault(tok[2:], {"offers": [], "finals": [], "parked": False})["parked"] = True
    return per


def accepts(case, impl, model):
    if case[2] in ("ua", "srv"):
        return True
    i, m = _summ_impl(impl), _summ_model(model)
    for rid in set(i) | set(m):
        a = i.get(rid, {"offers": [], "codes": [], "cseqs": set()})
        b = m.get(rid, {"offers": [], "finals": [], "parked": False})
        if a["offers"] != b["offers"]:
            return False
        if sorted(set(a["codes"])) != sorted(set(c for c, _ in b["finals"])):
            return False
        for code, inv in b["finals"]:
            cnt = a["codes"].count(code)
            if inv == "1" and cnt < 2:
                return False
            if inv == "0" and cnt != 1:
                return False
    return True


# ---------------------------------------------------------------- oracle from the property text
def _reference(case):
    """per request: expected (offers, final code or None, parked_forever) computed from the property's statement"""
    stack = [l for l in case[2].split(";") if l]
    dialogs = [d for d in case[3].split(";") if d and d != "-"] if "D" in stack else []
    dl = []
    for d in dialogs:
        c, _, us = d.partition(":")
        dl.append({"next": int(c) + 1 if int(c) < 4294967295 else 4294967295, "parked": {}, "usages": [] if us == "~" else us.split("/")})
    exp = collections.OrderedDict()

    def usage_walk(di, rid, m):
        offers = []
        for u, mask in enumerate(dl[di]["usages"]):
            offers.append("U%d.%d" % (di, u))
            if m in mask:
                return offers, (None if m == "a" else ("486" if m == "i" else "200"))
        return offers, (None if m == "a" else "404")

    for group in case[4].split(","):
        for item in group.split("+"):
            p = item.split(":")
            if p[0] == "P":
                exp[p[2]] = {"offers": [], "code": None, "method": None, "stray": True}
                continue
            _, m, d, c, rid = p
            c = int(c)
            e = {"offers": [], "code": None, "method": m, "cseq": c, "stray": False}
            exp[rid] = e
            done = False
            for idx, l in enumerate(stack):
                if l == "D":
                    if d != "-" and int(d) < len(dl):
                        di = int(d)
                        st = dl[di]
                        if c < st["next"]:
                            o, code = usage_walk(di, rid, m)
                            e["offers"] += o; e["code"] = code
                        elif c == st["next"]:
                            o, code = usage_walk(di, rid, m)
                            e["offers"] += o; e["code"] = code
                            last = c
                            while last < 4294967295 and (last + 1) in st["parked"]:
                                last += 1
                                prid, pm = st["parked"].pop(last)
                                o, code = usage_walk(di, prid, pm)
                                exp[prid]["offers"] += o; exp[prid]["code"] = code; exp[prid]["parked"] = False
                            st["next"] = min(last + 1, 4294967295)
                        else:
                            if c in st["parked"]:
                                # another request already waits under this number: it must not be displaced (it would never be
                                # answered); this one is not the dialog's to keep - the following layers / the endpoint answer it
                                continue
                            st["parked"][c] = (rid, m)
                            e["parked"] = True
                        done = True
                        break
                    continue
                e["offers"].append("L%d" % idx)
                if m in l[1:]:
                    e["code"] = None if m == "a" else ("486" if m == "i" else "200")
                    done = True
                    break
            if not done:
                e["code"] = None if m == "a" else "481"
    return exp


def _srv_oracle(case, impl):
    if "PANIC" in impl:
        return ["panic: " + impl[-300:]]
    sends = [int(m.group(2)) for m in re.finditer(r"\bS(!?)@(\d+)", impl)]
    if re.search(r"\bS!@", impl):
        return ["the request received a second, different final response"]
    if not sends:
        return ["the request received no final response"]
    t0 = int(case[6])
    again = [(int(m.group(1)), m.group(2)) for m in re.finditer(r"\bL@(\d+):(\w+)", impl) if 0 < int(m.group(1)) < t0 + 32000]
    if case[3] == "ni" and again:
        return ["the copy of the request arriving at %d ms (answered at %d ms, inside the 64*T1 the transaction lives) was handed to the layers a second time" % (again[0][0], t0)]
    if case[3] == "inv":
        acks = [int(x.split(":")[0]) for x in case[7].split(",") if x.endswith(":A") and int(x.split(":")[0]) < t0 + 32000]
        if acks and any(t >= acks[0] for t in sends):
            return ["the ACK for the rejected INVITE arrived at %d ms and a copy of the final response went out at %r: an ACK is never answered" % (
                acks[0], [t for t in sends if t >= acks[0]])]
    if case[4] == "1" and len(sends) != 1:
        return ["over a reliable transport the final response went out %d times (at %r ms): the request was received once, it gets exactly one final response" % (len(sends), sends)]
    return []


def oracle(case, impl):
    out = []
    if case[2] == "srv":
        return _srv_oracle(case, impl)
    if case[2] == "ua":
        return _ua_oracle(case, impl)
    if "PANIC" in impl:
        out.append("panic: " + impl[-300:])
        return out
    obs = _summ_impl(impl)
    exp = _reference(case)
    for rid, e in exp.items():
        o = obs.get(rid, {"offers": [], "codes": [], "cseqs": set()})
        if e["stray"]:
            if o["codes"] or o["offers"]:
                out.append("stray response %s was answered or offered to a layer: %s" % (rid, o))
            continue
        m = NAMES[e["method"]]
        if e["method"] == "a":
            if o["codes"]:
                out.append("ACK %s was answered with %s" % (rid, o["codes"]))
            continue
        if e.get("parked"):
            if not o["codes"]:
                out.append("parked-unanswered: %s %s (CSeq %d) is held behind a CSeq gap that is never filled and receives no final response" % (m, rid, e["cseq"]))
            continue
        distinct = sorted(set(o["codes"]))
        if len(distinct) != 1:
            out.append("%s %s received %d distinct final responses %s, the property demands exactly one" % (m, rid, len(distinct), distinct))
            continue
        if distinct[0] != e["code"]:
            out.append("%s %s was answered %s, expected %s (taker's answer, else 404 inside a dialog no usage wants, else 481)" % (m, rid, distinct[0], e["code"]))
        if o["cseqs"] != {"%d_%s" % (e["cseq"], m)}:
            out.append("%s %s: response carries CSeq %s, request had %d %s" % (m, rid, sorted(o["cseqs"]), e["cseq"], m))
        if e["method"] == "i":
            if len(o["codes"]) < 2:
                out.append("INVITE %s: the rejection was sent once and not retransmitted (no INVITE server transaction)" % rid)
        elif len(o["codes"]) != 1:
            out.append("%s %s: final response sent %d times" % (m, rid, len(o["codes"])))
        if o["offers"] != e["offers"]:
            out.append("%s %s was offered to %s, registration order up to the first taker gives %s" % (m, rid, o["offers"], e["offers"]))
    for rid in obs:
        if rid not in exp:
            out.append("response or offer for an unknown request %s" % rid)
    return out[:3]


def known(case, impl, violation, findings):
    for f in findings:
        if f["id"] == "F16a" and violation.startswith("parked-unanswered"):
            return "F16a"
    return None


def nontrivial(case, impl):
    if case[2] == "srv":
        return "|".join(case[3:])
    if case[2] == "ua":
        return case[5] if "W:SIP/2.0_" in impl else None
    if re.search(r"L\d+:r\d+ (L|U)", impl):
        return "|".join(case[2:5])
    return None


def distribution(cases, impl):
    h = collections.Counter()
    for c in cases:
        if c[2] in ("ua", "srv"):
            h["user-agent scenario" if c[2] == "ua" else "server transaction"] += 1
            continue
        h["layers=%d" % len([x for x in c[2].split(";") if x])] += 1
        h["dialogs=%d" % len([x for x in c[3].split(";") if x and x != "-"])] += 1
        for g in c[4].split(","):
            items = g.split("+")
            if len(items) > 1:
                h["concurrent-groups"] += 1
            for it in items:
                p = it.split(":")
                h["stray" if p[0] == "P" else ("in-dialog" if p[2] != "-" else "out-of-dialog")] += 1
    return dict(h)


def shrink_candidates(case):
    if case[2] in ("ua", "srv"):
        return []
    groups = case[4].split(",")
    out = []
    for i in range(len(groups)):
        out.append(case[:4] + [",".join(groups[:i] + groups[i + 1:])] + case[5:])
    stack = case[2].split(";")
    for i, l in enumerate(stack):
        if l != "D" and len(stack) > 1:
            out.append(case[:2] + [";".join(stack[:i] + stack[i + 1:])] + case[3:])
    return [c for c in out if c[4]]
