"""C18 -- digest credentials verify under RFC 7616 on first use and every reuse."""
import hashlib
import re

ID = "C18"
COQ_PROOF_TARGETS = ["Props/C18.vo"]
COQ_MODEL_TARGETS = ["Extract/ExC18.vo"]
CLAIM_TEXT = ("Theorems (coq/Props/C18.v, no axioms): with the hash functions as uninterpreted symbols, for every algorithm, -sess variant, qop, "
              "userhash flag, every realm / nonce / user / password / method / URI / body and every use n >= 1 the response and username terms "
              "the model of digest.rs computes are syntactically the RFC 7616 sec. 3.4 formulas with nc = n (hence equal under every "
              "interpretation of the hashes), nc grows by one per request, credentials are chosen by realm with the default only as a "
              "fallback, only the first supported challenge per realm is answered, a repeated challenge with an unchanged nonce fails and "
              "keeps the stored answer, and the header kind follows the kind of the challenge. Correspondence: the cross product of "
              "algorithms x qop sets x userhash x opaque x random strings (incl. non-ASCII) x method x URI x body, 1..5 reuses and challenge "
              "sequences across realms, header kinds and repeats, through the real UacAuthSession; the model's terms are evaluated with "
              "Python's hashlib and compared with the produced headers; an independent RFC 7616 verifier checks every header on its own.")
CLAIM_NOTE = ("Trusted: Coq kernel; hand-written model Model/C18.v validated by differential runs; md5 / sha-256 / sha-512-256 and their hex "
              "printing are uninterpreted in the theorems and evaluated by hashlib in the check; the random cnonce is read from the "
              "implementation's header; quoted-string escaping of header parameters is C01's subject (generated strings avoid quote and "
              "backslash).")
TRUSTED = [
    "Coq 8.16.1 kernel; no axioms",
    "hand-written model coq/Model/C18.v of sip-auth/src/{digest,lib}.rs, validated by the correspondence run",
    "extraction (ExtrOcamlBasic only) + ocaml/util.ml + ocaml/c18_driver.ml; Python hashlib as the interpretation of the hash symbols",
    "Rust harness harness/src/c18.rs (public API of sip-auth)",
]
ASSUMPTIONS = [
    "hash functions are total functions of their input bytes (theorems hold for every such function)",
    "the request URI text given to the model is what ezk prints for it in request-URI context",
]
RULE = ("algorithm {MD5, SHA-256, SHA-512-256} x {plain, -sess} x qop set {none, auth, auth-int, auth+auth-int, token only} x userhash x opaque x "
        "seeded realm/nonce/user/password strings (ASCII and non-ASCII) x methods x URIs x bodies, 1..5 uses each; sequences of "
        "challenges across 1..3 realms with WWW/Proxy kinds, unsupported algorithms first, repeated nonces, missing credentials; "
        "non-trivial = at least one header is produced; distinct = distinct case text")
PARTIAL = []

ALGS = ["MD5", "MD5-sess", "SHA-256", "SHA-256-sess", "SHA-512-256", "SHA-512-256-sess"]
QOPS = ["-", "auth", "auth-int", "auth+auth-int", "auth-int+auth", "token", "token+auth"]
STR = ["example.org", "r e a l m", "biloxi.com", "realm-ü", "http-auth@example.org"]
USERS = [("alice", "secret"), ("Mufasa", "Circle of Life"), ("jäsøn", "pässwörd"), ("u:ser", "p:w"), ("", ""),
         ("50%25 off", "pw"), ("100% sûr", "x y"), ("alice%40example.org@pbx", "secret"), ("%41lice", "p%20w"), ("a\"b c", "q\"")]
NONCES = ["dcd98b7102dd2f0e8b11d0f600bfb0c093", "7ypf/xlj9XXwfDPEoM4URrv/xwf94BcCAzFZH4GiTo0v", "n"]
URIS = ["sip:example.org", "sip:bob@biloxi.com:5070;transport=tcp", "sips:carol@chicago.example.com"]


def hx(s):
    return (s if isinstance(s, bytes) else s.encode()).hex()


def chal(rng, kind=None, alg=None, qop=None, realm=None, nonce=None):
    return ",".join([kind or rng.choice("WP"), alg or rng.choice(ALGS), qop or rng.choice(QOPS), rng.choice("01"),
                     hx(realm if realm is not None else rng.choice(STR)), hx(nonce if nonce is not None else rng.choice(NONCES)),
                     rng.choice(["-", hx("5ccc069c403ebaf9f0171e9517f40e41")]), rng.choice("0001")])


def gen_cases(rng, tier):
    cases = []
    n = 0
    methods = ["REGISTER", "INVITE", "OPTIONS"]
    bodies = [b"", b"v=0\r\no=- 1 1 IN IP4 1.2.3.4\r\n", bytes(range(256))]
    # the cross product, each used 1..5 times
    for alg in ALGS:
        for qop in QOPS:
            for uh in "01":
                user, pw = rng.choice(USERS)
                realm = rng.choice(STR)
                c = ",".join(["W", alg, qop, uh, hx(realm), hx(rng.choice(NONCES)), rng.choice(["-", hx("opq")])])
                steps = "A" + c + ";" + ";".join(["U"] * rng.randrange(1, 6))
                cases.append(["x%d" % n, "c18", rng.choice(methods), rng.choice(URIS), rng.choice(bodies).hex(),
                              "%s=%s:%s" % (hx(realm), hx(user), hx(pw)), steps, rng.choice(["", "", "enforce"])]); n += 1
    # long reuse: the nonce count passes 9 (hex letters) and, in the thorough tier, 255 (a third digit)
    for alg in ALGS:
        for qop in ["auth", "auth-int"]:
            user, pw = rng.choice(USERS)
            realm = rng.choice(STR)
            c = ",".join(["W", alg, qop, "0", hx(realm), hx(rng.choice(NONCES)), "-"])
            uses = rng.randrange(11, 18) if tier == "quick" else rng.choice([17, 33, 260])
            cases.append(["r%d" % n, "c18", rng.choice(methods), rng.choice(URIS), b"".hex(),
                          "%s=%s:%s" % (hx(realm), hx(user), hx(pw)), "A" + c + ";" + ";".join(["U"] * uses), ""]); n += 1
    # sequences
    for i in range(120 if tier == "quick" else 4000):
        realms = rng.sample(STR, rng.randrange(1, 4))
        store = []
        for r in realms:
            if rng.random() < 0.8:
                u, p = rng.choice(USERS)
                store.append("%s=%s:%s" % (hx(r), hx(u), hx(p)))
        if rng.random() < 0.4:
            u, p = rng.choice(USERS)
            store.append("*=%s:%s" % (hx(u), hx(p)))
        # a realm whose credentials are stored a second time (a corrected password): the later ones are the stored ones
        if store and rng.random() < 0.35:
            r = rng.choice(realms)
            u, p = rng.choice(USERS)
            store.append("%s=%s:%s" % (hx(r), hx(u), hx(p + "2")))
        steps = []
        used_nonce = {}
        for _ in range(rng.randrange(1, 5)):
            chs = []
            for r in rng.sample(realms, rng.randrange(1, len(realms) + 1)):
                for _ in range(rng.randrange(1, 3)):
                    alg = rng.choice(ALGS + ["FOO", "SHA-1"])
                    nonce = used_nonce[r] if (r in used_nonce and rng.random() < 0.4) else rng.choice(NONCES) + str(rng.randrange(100))
                    chs.append(chal(rng, alg=alg, realm=r, nonce=nonce))
                    used_nonce[r] = nonce
            if rng.random() < 0.2:
                # the application stores other credentials before the next challenge arrives
                u, p = rng.choice(USERS)
                steps.append("C%s=%s:%s" % (rng.choice([hx(r) for r in realms] + ["*"]), hx(u), hx(p + "3")))
            steps.append("A" + "|".join(chs))
            steps += ["U"] * rng.randrange(0, 4)
        cases.append(["s%d" % i, "c18", rng.choice(methods), rng.choice(URIS), rng.choice(bodies).hex(), ";".join(store), ";".join(steps),
                      rng.choice(["", "", "enforce", "rejectmd5"])])
    return cases


# ---- expression evaluation (the interpretation of the model's hash symbols) ----
def H(alg, data):
    if alg == "md5":
        return hashlib.md5(data).hexdigest().encode()
    if alg == "sha256":
        return hashlib.sha256(data).hexdigest().encode()
    return hashlib.new("sha512_256", data).hexdigest().encode()


def evaluate(e, cnonce):
    e = e.strip()
    pos = [0]

    def parse():
        s = e
        i = pos[0]
        if s[i] == "L":
            j = i + 1
            while j < len(s) and s[j] in "0123456789abcdef":
                j += 1
            pos[0] = j
            b = bytes.fromhex(s[i + 1:j])
            if b.startswith(b"\x00CNONCE\x00"):
                return cnonce
            return b
        if s[i] == "X":
            j = i + 1
            while j < len(s) and s[j].isdigit():
                j += 1
            pos[0] = j
            return ("%08X" % int(s[i + 1:j])).encode()
        if s[i] == "C":
            pos[0] = i + 2
            parts = []
            while s[pos[0]] != ")":
                parts.append(parse())
                if s[pos[0]] == ",":
                    pos[0] += 1
            pos[0] += 1
            return b"".join(parts)
        if s[i] == "H":
            j = s.index("(", i)
            alg = s[i + 1:j]
            pos[0] = j + 1
            inner = parse()
            pos[0] += 1
            return H(alg, inner)
        raise ValueError("bad expr at %d: %s" % (i, s[i:i + 20]))
    return parse()


def parse_header(v):
    """Digest k="v", k=v ... -> dict"""
    assert v.startswith("Digest ")
    d = {}
    for m in re.finditer(r'([\w*]+)=("([^"]*)"|[^,\s]+)', v[7:]):
        d[m.group(1)] = m.group(3) if m.group(3) is not None else m.group(2)
    return d


def _impl_steps(impl):
    return impl.split("\t")[0].split(";")


def normalize_impl(case, s):
    out = []
    for st in _impl_steps(s):
        if st.startswith("C["):
            out.append("C[]")
        elif st.startswith("A["):
            out.append("A[ok]" if st == "A[ok]" else "A[fail]")
        elif st.startswith("U["):
            hs = [h for h in st[2:-1].split(",") if h]
            vals = []
            for h in hs:
                kind, hv = h.split(":", 1)
                d = parse_header(bytes.fromhex(hv).decode("utf-8"))
                user = d.get("username")
                if user is None and "username*" in d:
                    from urllib.parse import unquote
                    user = unquote(d["username*"].split("''", 1)[1])
                alg = d.get("algorithm", "MD5")
                vals.append("%s|username=%s|realm=%s|nonce=%s|uri=%s|response=%s|alg=%s|opaque=%s|qop=%s|nc=%s|userhash=%s" % (
                    kind, user, d.get("realm"), d.get("nonce"), d.get("uri"), d.get("response"), alg,
                    d.get("opaque", "-"), d.get("qop", "-"), int(d.get("nc", "0"), 16) if "nc" in d else 0, 1 if d.get("userhash") == "true" else 0))
            out.append("U[" + "\x1d".join(sorted(vals)) + "]")
    return "\x1e".join(out)


def normalize_model(case, s):
    # needs the implementation's cnonces: done in accepts()
    return s.strip()


def accepts(case, impl_norm, model):
    msteps = model.split(";")
    isteps = impl_norm.split("\x1e")
    if len(msteps) != len(isteps):
        return False
    for idx, (m, i) in enumerate(zip(msteps, isteps)):
        if m.startswith("C["):
            if i != "C[]":
                return False
            continue
        if m.startswith("A["):
            if (m == "A[ok]") != (i == "A[ok]"):
                return False
            continue
        ivals = [x for x in i[2:-1].split("\x1d") if x]
        # headers in the model's output start with "A|" or "P|" (commas also occur inside C(..,..))
        mvals = [x for x in re.split(r",(?=[AP]\|username=)", m[2:-1]) if x]
        if len(mvals) != len(ivals):
            return False
        raw_headers = _raw_headers(case, idx)
        got = []
        for mv in mvals:
            if mv == "none":
                return False
            parts = mv.split("|")
            f = dict(x.split("=", 1) for x in parts[1:])
            realm = bytes.fromhex(f["realm"]).decode("utf-8")
            d = raw_headers.get((parts[0], realm))
            if d is None:
                return False
            cn = d.get("cnonce", "").encode()
            user = evaluate(f["username"], cn).decode("utf-8", "replace")
            resp = evaluate(f["response"], cn).decode()
            got.append("%s|username=%s|realm=%s|nonce=%s|uri=%s|response=%s|alg=%s|opaque=%s|qop=%s|nc=%s|userhash=%s" % (
                parts[0], user, realm, bytes.fromhex(f["nonce"]).decode("utf-8"), bytes.fromhex(f["uri"]).decode(), resp, f["alg"],
                "-" if f["opaque"] == "-" else bytes.fromhex(f["opaque"]).decode(), f["qop"], f["nc"], f["userhash"]))
        if sorted(got) != sorted(ivals):
            return False
    return True


_RAW = {}
_IMPL_RAW = {}


def _raw_headers(case, step_index):
    raw = _IMPL_RAW[case[0]]
    st = _impl_steps(raw)[step_index]
    out = {}
    for h in [x for x in st[2:-1].split(",") if x]:
        kind, hv = h.split(":", 1)
        d = parse_header(bytes.fromhex(hv).decode("utf-8"))
        out[(kind, d.get("realm"))] = d
    return out


def oracle(case, impl):
    """independent RFC 7616 verification of every produced header with the stored credentials"""
    _IMPL_RAW[case[0]] = impl
    if "PANIC" in impl:
        return ["panic: " + impl[-300:]]
    store = {}
    default = None
    for e in case[5].split(";"):
        if e:
            realm, up = e.split("=", 1)
            u, p = up.split(":")
            if realm == "*":
                default = (bytes.fromhex(u), bytes.fromhex(p))
            else:
                store[bytes.fromhex(realm).decode("utf-8")] = (bytes.fromhex(u), bytes.fromhex(p))
    method = case[2].encode()
    body = bytes.fromhex(case[4])
    steps = [s for s in case[6].split(";") if s]
    isteps = _impl_steps(impl)
    if len(isteps) != len(steps):
        return ["malformed observation"]
    stored_at = {}   # (realm, nonce) -> the credentials stored for the realm when a challenge with that nonce arrived
    kinds = {}       # realm -> header kind of the challenge that should be answered
    nonce_kinds = {} # (realm, nonce) -> kinds of the challenges that carried this nonce, in order
    last_nc = {}
    opts = case[7] if len(case) > 7 else ""
    answered = {}    # realm -> nonce of the challenge whose answer is stored
    expect = {}      # realm -> (nonce, kind) of the first challenge of the last response that can be answered
    for st, o in zip(steps, isteps):
        if st.startswith("C"):
            realm, up = st[1:].split("=", 1)
            u, p = up.split(":")
            if realm == "*":
                default = (bytes.fromhex(u), bytes.fromhex(p))
            else:
                store[bytes.fromhex(realm).decode("utf-8")] = (bytes.fromhex(u), bytes.fromhex(p))
            continue
        if st.startswith("A"):
            for ch in st[1:].split("|"):
                f = ch.split(",")
                realm = bytes.fromhex(f[4]).decode("utf-8")
                stored_at.setdefault((realm, bytes.fromhex(f[5]).decode("utf-8", "replace")), []).append(store.get(realm, default))
                kinds.setdefault(realm, set()).add(f[0])
                nonce_kinds.setdefault((realm, bytes.fromhex(f[5]).decode("utf-8", "replace")), []).append(f[0])
            last_nc_reset = True
            # "only the first supported challenge per realm is answered": the challenges of one response, WWW-Authenticate before
            # Proxy-Authenticate (the two header kinds are separate entries of the header map), grouped by realm
            chs = [ch.split(",") for ch in st[1:].split("|")]
            # "a repeated challenge with an unchanged nonce is reported as failed authentication instead of being answered again"
            # (whatever its stale flag says): a response all of whose challenges for some realm carry the nonce already answered
            for realm_h in set(c[4] for c in chs):
                realm_s = bytes.fromhex(realm_h).decode("utf-8")
                mine = [c for c in chs if c[4] == realm_h]
                if realm_s in answered and all(bytes.fromhex(c[5]).decode("utf-8", "replace") == answered[realm_s] for c in mine) and o == "A[ok]":
                    return ["the challenge for realm %r repeats the nonce %r that was already answered (stale=%s) and was answered again instead of being reported as failed" % (
                        realm_s, answered[realm_s], "/".join(c[7] if len(c) > 7 else "0" for c in mine))]
            chs = [c for c in chs if c[0] == "W"] + [c for c in chs if c[0] != "W"]
            seen_realms = []
            for c in chs:
                realm = bytes.fromhex(c[4]).decode("utf-8")
                if realm in seen_realms:
                    continue
                nonce = bytes.fromhex(c[5]).decode("utf-8", "replace")
                alg_ok = c[1] in ALGS and not ("rejectmd5" in opts and c[1].upper().startswith("MD5"))
                qs = [] if c[2] == "-" else c[2].split("+")
                qop_ok = (not qs) or "auth" in qs or "auth-int" in qs
                if alg_ok and qop_ok and answered.get(realm) != nonce:
                    seen_realms.append(realm)
                    if store.get(realm, default) is not None:
                        expect[realm] = (nonce, c[0])
                        answered[realm] = nonce
            continue
        for h in [x for x in o[2:-1].split(",") if x]:
            kind, hv = h.split(":", 1)
            text = bytes.fromhex(hv).decode("utf-8")
            d = parse_header(text)
            realm = d.get("realm")
            if realm in expect and d.get("nonce") != expect[realm][0]:
                return ["the header for realm %r answers the challenge with nonce %r, but the first supported challenge for that realm in the last "
                        "response carried nonce %r (%s)" % (realm, d.get("nonce"), expect[realm][0], "Proxy-Authenticate" if expect[realm][1] == "P" else "WWW-Authenticate")]
            if realm in expect and ("P" if kind == "P" else "W") != expect[realm][1]:
                return ["the answer for realm %r goes out as %s, the first supported challenge for that realm came as %s" % (
                    realm, "Proxy-Authorization" if kind == "P" else "Authorization", "Proxy-Authenticate" if expect[realm][1] == "P" else "WWW-Authenticate")]
            cands = [c for c in stored_at.get((realm, d.get("nonce")), [store.get(realm, default)]) if c is not None]
            # the credentials stored for the realm when the answered challenge arrived (a challenge whose nonce was seen before is
            # not answered again, so the earlier ones stay possible)
            uniq = []
            for c in cands:
                if c not in uniq:
                    uniq.append(c)
            if not uniq:
                return ["a header was produced for realm %r although no credentials are stored for it" % realm]
            if realm in kinds and ("P" if kind == "P" else "W") not in kinds[realm]:
                return ["%s header for realm %r which was only challenged with the other header kind" % ("Proxy-Authorization" if kind == "P" else "Authorization", realm)]
            nk = nonce_kinds.get((realm, d.get("nonce")))
            if nk and ("P" if kind == "P" else "W") not in nk:
                return ["the answer to the %s challenge (realm %r, nonce %r) was sent as %s: a Proxy-Authenticate challenge yields Proxy-Authorization and a WWW-Authenticate one Authorization" % (
                    "Proxy-Authenticate" if nk[-1] == "P" else "WWW-Authenticate", realm, d.get("nonce"), "Proxy-Authorization" if kind == "P" else "Authorization")]
            alg = d.get("algorithm", "MD5")
            sess = alg.lower().endswith("-sess")
            base = {"md5": "md5", "sha-256": "sha256", "sha-512-256": "sha512_256"}.get(alg.lower().replace("-sess", ""))
            if base is None:
                return ["unknown algorithm in the produced header: " + alg]
            nonce = d["nonce"].encode(); cnonce = d.get("cnonce", "").encode(); uri = d["uri"].encode()
            qop = d.get("qop")
            # the user name the header names (plain, or RFC 5987 extended: username*=UTF-8''<percent-encoded>), unless it is hashed
            named = None
            if d.get("userhash") != "true":
                if "username*" in d:
                    from urllib.parse import unquote_to_bytes
                    ext = d["username*"]
                    if not ext.upper().startswith("UTF-8''") or re.search(r"%(?![0-9A-Fa-f]{2})", ext):
                        return ["the extended user name %r is not a valid RFC 5987 value" % ext]
                    named = unquote_to_bytes(ext.split("''", 1)[1])
                elif "username" in d:
                    named = d["username"].encode()
                if named is not None and all(named != u for u, _ in uniq):
                    return ["the header names user %r, the credentials stored for realm %r belong to %r" % (named.decode("utf-8", "replace"), realm, [u.decode("utf-8", "replace") for u, _ in uniq])]
            errs = []
            for user, pw in uniq:
                a1 = user + b":" + realm.encode() + b":" + pw
                if sess:
                    a1 = H(base, a1) + b":" + nonce + b":" + cnonce
                a2 = method + b":" + uri
                if qop == "auth-int":
                    a2 += b":" + H(base, body)
                if qop:
                    want = H(base, H(base, a1) + b":" + nonce + b":" + d["nc"].encode() + b":" + cnonce + b":" + qop.encode() + b":" + H(base, a2))
                else:
                    want = H(base, H(base, a1) + b":" + nonce + b":" + H(base, a2))
                if d["response"].encode() != want:
                    errs.append("the %s header for realm %r (algorithm %s, qop %s, nc %s) does not verify under RFC 7616 with the credentials stored for that realm" % (
                        "Proxy-Authorization" if kind == "P" else "Authorization", realm, alg, qop, d.get("nc")))
                elif d.get("userhash") == "true" and d.get("username", "").encode() != H(base, user + b":" + realm.encode()):
                    errs.append("userhash=true but the username is not H(user:realm)")
                else:
                    errs = []
                    break
            if errs:
                return errs[:1]
            if qop:
                nc = int(d["nc"], 16)
                key = (kind, realm, d["nonce"], d.get("cnonce"))
                if key in last_nc and nc != last_nc[key] + 1:
                    return ["nonce count went from %d to %d" % (last_nc[key], nc)]
                if key not in last_nc and nc != 1:
                    return ["first use with nc=%d" % nc]
                last_nc[key] = nc
    return []


def nontrivial(case, impl):
    return "\t".join(case[2:]) if "U[A:" in impl or "U[P:" in impl or ",A:" in impl or ",P:" in impl else None
