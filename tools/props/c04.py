"""C04 -- messages reach exactly the transaction RFC 3261 sec. 17 matching prescribes."""

import re

ID = "C04"
COQ_PROOF_TARGETS = ["Props/C04.vo"]
COQ_MODEL_TARGETS = ["Extract/ExC04.vo"]
CLAIM_TEXT = ("Theorems (coq/Props/C04.v, no axioms) over the model of TsxKey / the transaction table / do_receive dispatch: the complete "
              "routing rule (an entry with exactly the message's key decides, nothing else does), key equality characterised for the RFC "
              "3261 branch style (role, branch, CSeq method with INVITE/ACK folded) and the RFC 2543 fallback (Call-ID, From-tag, CSeq, "
              "folded method, sent-by), role disjointness, absorption of retransmissions and of the non-2xx ACK, surfacing of CANCEL and "
              "of the 2xx ACK (filter), re-use of identifiers after a transaction ended; the cookie is regenerated from the source. "
              "Correspondence: histories of requests/responses/ACKs/CANCELs with client transactions started and ended, run against "
              "the real endpoint (who saw each message, table size after each step) and the extracted model.")
CLAIM_NOTE = ("Trusted: Coq kernel; translator (branch cookie); hand-written model Model/C04.v validated by differential runs; each do_receive "
              "performs one lookup-or-insert under the table lock, so concurrent receives are sequences of atomic steps (histories). "
              "Delivery into a held request's private channel is not observable: `absorbed` is observed as `no layer saw it and the "
              "table did not grow`. Timed expiry of entries belongs to C05/C06/C16.")
TRUSTED = [
    "Coq 8.16.1 kernel; no axioms",
    "tools/translate.py (RFC3261_BRANCH_PREFIX)",
    "hand-written model coq/Model/C04.v of transaction/{key,mod,registration}.rs and endpoint.rs::do_receive, validated by the correspondence run",
    "extraction (ExtrOcamlBasic only) + ocaml/util.ml + ocaml/c04_driver.ml",
    "Rust harness harness/src/c04.rs (mock transport, hold-everything layer, client transactions driven by tasks, H3 table size)",
]
ASSUMPTIONS = [
    "lookup-or-insert in Transactions::get_handler is atomic (one mutex), handler invoked under the guard",
    "client branches are unique (23 random alphanumerics after the cookie)",
    "no virtual time passes inside a case, so no timer-driven removal interferes",
]
RULE = ("seeded random histories (length <= 14) over the alphabet branches {two cookie branches, bare cookie, wrong-case cookie, "
        "cookie-less, absent} x methods {INVITE, ACK, CANCEL, OPTIONS, BYE} (request line and CSeq method independently) x "
        "Call-IDs x CSeqs x From-tags (incl. absent) x sent-by, mixed with client transaction starts (INVITE / non-INVITE), "
        "responses to them (provisional, final, duplicates, wrong method), respond_success on held INVITEs and drops of every "
        "handle; plus the exhaustive pairs (live entry, message) over the alphabet in thorough. non-trivial = some message is "
        "absorbed by or delivered to an existing transaction; distinct = distinct event text")
PARTIAL = ["Via sent-by is not part of the RFC 3261-style key in ezk (the property does not ask for it)"]

COOKIE = "z9hG4bK"
BRANCHES = ["z9hG4bKa", "z9hG4bKb", "z9hG4bK", "Z9HG4BKa", "old1", "-"]
METHODS = ["INVITE", "ACK", "CANCEL", "OPTIONS", "BYE"]
# top-Via sent-by values ("~" stands for the colon in front of a port): two hosts, and one host with no / the default / two other ports
SENT_BY = ["h1", "h1", "h2", "h1~5070", "h1~5080", "h1~5060"]


def fold(m):
    return None if m in ("INVITE", "ACK") else m


def key_of(is_req, branch, cseq_m, cseq, ft, cid, sb):
    role = "S" if is_req else "C"
    b = "" if branch == "-" else branch
    if b.startswith(COOKIE):
        return ("3261", role, b, fold(cseq_m))
    if ft == "-":
        return None
    return ("2543", role, fold(cseq_m), int(cseq), ft, cid, sb)


class Ref:
    """reference transaction table written from RFC 3261 17.1.3 / 17.2.3 and the property text"""

    def __init__(self):
        self.table = {}        # key -> dict(owner, id, filter, surfacing, kind)
        self.held = []         # per surfaced request: dict(key or None, method, moved, alive)
        self.clients = {}

    def recv(self, is_req, line_m, cseq_m, cseq, branch, cid, ft, sb):
        if isinstance(branch, str) and branch.startswith("@"):
            branch = COOKIE + "-client-" + branch[1:]
        k = key_of(is_req, branch, cseq_m, cseq, ft, cid, sb)
        if k is None:
            return "-"
        e = self.table.get(k)
        if e is not None:
            if e["filter"] and is_req and line_m == "ACK":
                self.held.append({"key": None, "method": line_m, "moved": False, "alive": True})
                return "L%d" % (len(self.held) - 1)
            if e["owner"] == "client" and not is_req and e["surfacing"]:
                status = int(line_m)
                if e["kind"] == "INVITE" and 200 <= status < 300:
                    e["accepted"] = True     # Accepted state: every later response is handed over
                if (e["kind"] == "INVITE" and status >= 300 and not e.get("accepted")) or (e["kind"] != "INVITE" and status >= 200):
                    e["surfacing"] = False
                return "c%s" % e["id"]
            return "-"
        if is_req:
            self.table[k] = {"owner": "held", "id": len(self.held), "filter": False, "surfacing": False, "kind": line_m}
            self.held.append({"key": k, "method": line_m, "moved": False, "alive": True})
            return "L%d" % (len(self.held) - 1)
        return "-"

    def client_start(self, idx, method):
        k = ("3261", "C", COOKIE + "-client-" + str(idx), fold(method))
        self.table[k] = {"owner": "client", "id": str(idx), "filter": False, "surfacing": True, "kind": method}
        self.clients[str(idx)] = k

    def respond_success(self, n):
        h = self.held[n]
        h["moved"] = True
        self.table[h["key"]]["filter"] = True

    def drop(self, what):
        if what[0] == "h":
            h = self.held[int(what[1:])]
            if h["alive"] and not h["moved"] and h["key"] is not None:
                self.table.pop(h["key"], None)
            h["alive"] = False
        elif what[0] == "a":
            h = self.held[int(what[1:])]
            if h["moved"] and h["key"] in self.table:
                self.table.pop(h["key"], None)
                h["moved"] = False
                h["key"] = None
        elif what[0] == "c":
            k = self.clients.get(what[1:])
            # after its final response the registration belongs to the absorber task (T4 / 32 s),
            # dropping the transaction object no longer ends it
            if k and self.table.get(k, {}).get("surfacing"):
                self.clients.pop(what[1:])
                self.table.pop(k, None)


def _apply(ref, ev):
    p = ev.split(":")
    if p[0] == "M":
        return ref.recv(p[1] == "q", p[2], p[3], p[4], p[5], p[6], p[7], p[8])      # p[9], a lower Via, plays no part
    if p[0] == "C":
        ref.client_start(p[1], p[2])
    elif p[0] == "S":
        ref.respond_success(int(p[1]))
    elif p[0] == "X":
        ref.drop(p[1])
    return "-"


def gen_history(rng, length):
    ref = Ref()
    evs = []
    nclients = 0
    accepted = set()
    for _ in range(length):
        r = rng.random()
        ev = None
        if r < 0.55:
            # a request, biased towards re-using identifiers of live entries
            lm = rng.choice(METHODS)
            cm = lm if rng.random() < 0.85 else rng.choice(METHODS)
            br = rng.choice(BRANCHES)
            ev = "M:q:%s:%s:%d:%s:%s:%s:%s" % (lm, cm, rng.choice([1, 2]), br, rng.choice("xy"), rng.choice(["f", "g", "-"]), rng.choice(SENT_BY))
            if rng.random() < 0.3:
                # the request came through a proxy: a lower Via whose branch / sent-by are those of other messages of the history
                ev += ":%s!%s" % (rng.choice(SENT_BY), rng.choice(BRANCHES))
            elif ref.clients and rng.random() < 0.15:
                # a request that carries the branch and CSeq method of one of our own client transactions (our request reflected by a peer, a
                # call to our own address): it never matches a transaction of the opposite role - it is a new request
                idx = rng.choice(sorted(ref.clients))
                kind = ref.table[ref.clients[idx]]["kind"]
                ev = "M:q:%s:%s:1:@%s:x:f:h1" % (kind, kind, idx)
        elif r < 0.72 and ref.clients:
            idx = rng.choice(sorted(ref.clients))
            kind = ref.table[ref.clients[idx]]["kind"]
            cm = kind if rng.random() < 0.8 else rng.choice(METHODS)
            status = rng.choice([100, 180, 200, 200, 404, 486])
            br = "@" + idx if rng.random() < 0.85 else rng.choice(BRANCHES)
            ev = "M:r:%d:%s:1:%s:x:f:h1" % (status, cm, br)
            if rng.random() < 0.3:
                # somebody else's response which lists our client transaction's Via further down, or ours with a foreign Via below it
                ev += ":h2!%s" % rng.choice(["@" + idx, "z9hG4bKa", "old1"])
        elif r < 0.78:
            ev = "M:r:%d:%s:1:%s:x:f:h1" % (rng.choice([180, 200, 487]), rng.choice(METHODS), rng.choice(BRANCHES))
        elif r < 0.86 and nclients < 4:
            ev = "C:%d:%s" % (nclients, rng.choice(["INVITE", "OPTIONS", "BYE"]))
            nclients += 1
        elif r < 0.92:
            cands = [i for i, h in enumerate(ref.held) if h["alive"] and not h["moved"] and h["key"] is not None and h["method"] == "INVITE" and i not in accepted]
            if cands:
                n = rng.choice(cands)
                accepted.add(n)
                ev = "S:%d" % n
        else:
            cands = ["h%d" % i for i, h in enumerate(ref.held) if h["alive"]] + ["a%d" % i for i in accepted if ref.held[i]["moved"]] + ["c%s" % i for i in ref.clients]
            if cands:
                ev = "X:" + rng.choice(cands)
        if ev is None:
            continue
        _apply(ref, ev)
        evs.append(ev)
    return evs


def gen_cases(rng, tier):
    cases = []
    n = 300 if tier == "quick" else 8000
    for i in range(n):
        evs = gen_history(rng, rng.randrange(3, 15))
        if evs:
            cases.append(["h%d" % i, "c04", ",".join(evs)])
    # the end of a transaction by its timer: retransmissions inside the 64*T1 window are absorbed, the same identifiers
    # afterwards are a new transaction, however many retransmissions were absorbed in between
    import importlib
    P06 = importlib.import_module("props.c06")
    k = 0
    for t0 in (0, 137):
        for code in (200, 404):
            for evs in ([(t0 + 32001, "R")], [(t0 + 100, "R"), (t0 + 32001, "R")], [(t0 + 20000, "R"), (t0 + 40000, "R")], [(t0 + 31999, "R"), (t0 + 32002, "R")],
                        [(t0 + 10000, "R"), (t0 + 20000, "R"), (t0 + 30000, "R"), (t0 + 40000, "R")], [(t0 + 31000, "R"), (t0 + 62000, "R")]):
                c = P06._case("tj%d" % k, "ni", 0, code, t0, evs)
                cases.append([c[0], "c04", "TIMED"] + c[2:]); k += 1
    # ... also when the re-send of the response for one of them fails (a transient transport error): the transaction goes on absorbing
    for t0 in (0, 137):
        for code in (200, 404):
            for evs in ([(t0 + 500, "X"), (t0 + 1500, "R"), (t0 + 3500, "R")], [(t0 + 100, "R"), (t0 + 600, "X"), (t0 + 700, "X"), (t0 + 20000, "R"), (t0 + 33000, "R")],
                        [(t0 + 1, "X"), (t0 + 31000, "R")]):
                c = P06._case("tx%d" % k, "ni", 0, code, t0, evs)
                cases.append([c[0], "c04", "TIMED"] + c[2:]); k += 1
    for br in ("", "legacy", "none"):
        for rel in (0, 1):
            for t0 in (0, 137):
                for ack in (1, 400, 1200, 31000):
                    evs = ([(t0 + ack // 2 + 1, "R")] if rel == 0 and ack > 2 else []) + [(t0 + ack, "A")]
                    c = P06._case("ta%d" % k, "inv", rel, 486, t0, evs, branch=br)
                    cases.append([c[0], "c04", "TIMED"] + c[2:]); k += 1
    # the client side in time: a response with the transaction's branch and CSeq method reaches it whenever it arrives during the
    # transaction's life - also while the caller is still inside the first send (the request is out, the flush has not returned)
    P05 = importlib.import_module("props.c05")
    for c in P05.gen_cases(rng.__class__(5), "quick"):
        if c[0].startswith("lng-"):
            cases.append([c[0], "c04", "CLIENT"] + c[2:])
    if tier == "thorough":
        # exhaustive pairs: one live server entry (request A), then message B, over the alphabet
        k = 0
        for ba in BRANCHES[:5]:
            for ma in ("INVITE", "OPTIONS"):
                for bb in BRANCHES:
                    for lmb in METHODS:
                        for cidb in "xy":
                            for ftb in ("f", "g"):
                                for isq in ("q", "r"):
                                    a = "M:q:%s:%s:1:%s:x:f:h1" % (ma, ma, ba)
                                    b = "M:%s:%s:%s:1:%s:%s:%s:h1" % (isq, lmb if isq == "q" else "200", lmb, bb, cidb, ftb)
                                    cases.append(["p%d" % k, "c04", a + "," + b])
                                    k += 1
    # messages that travelled through a proxy: the transaction is identified by the TOP Via only
    pv = [("M:q:OPTIONS:OPTIONS:1:z9hG4bKa:x:f:h1:h2!z9hG4bKu,M:q:OPTIONS:OPTIONS:1:z9hG4bKb:x:f:h1:h2!z9hG4bKu,M:q:OPTIONS:OPTIONS:1:z9hG4bKa:x:f:h1:h2!z9hG4bKu"),
          ("M:q:INVITE:INVITE:1:z9hG4bKa:x:f:h1:h2!z9hG4bKb,M:q:INVITE:INVITE:1:z9hG4bKb:x:f:h1:h2!z9hG4bKa,M:q:ACK:ACK:1:z9hG4bKb:x:f:h1:h2!z9hG4bKa"),
          ("C:0:OPTIONS,M:r:486:OPTIONS:1:z9hG4bKforeign:x:f:h2:h1!@0,M:r:200:OPTIONS:1:@0:x:f:h1"),
          ("C:0:INVITE,M:r:180:INVITE:1:z9hG4bKforeign:x:f:h2:h1!@0,M:r:180:INVITE:1:@0:x:f:h1:h2!z9hG4bKforeign,M:r:200:INVITE:1:@0:x:f:h1"),
          ("M:q:OPTIONS:OPTIONS:1:old1:x:f:h1:h2!old1,M:q:OPTIONS:OPTIONS:1:old1:x:f:h2:h1!old1,M:q:OPTIONS:OPTIONS:1:old1:x:f:h1:h1~5070!old2"),
          ("M:q:BYE:BYE:2:old1:x:f:h1:h2!z9hG4bKa,M:q:BYE:BYE:2:z9hG4bKa:x:f:h2:h1!old1,M:q:BYE:BYE:2:old1:x:f:h1")]
    pv += ["C:0:OPTIONS,M:q:OPTIONS:OPTIONS:1:@0:x:f:h1,M:r:200:OPTIONS:1:@0:x:f:h1", "C:0:INVITE,M:q:INVITE:INVITE:1:@0:x:f:h1,M:q:ACK:ACK:1:@0:x:f:h1,M:r:486:INVITE:1:@0:x:f:h1",
           "C:0:BYE,C:1:OPTIONS,M:q:BYE:BYE:1:@0:y:g:h2,M:q:BYE:BYE:1:@0:y:g:h2,M:r:200:BYE:1:@0:x:f:h1,M:q:OPTIONS:OPTIONS:1:@1:x:f:h1"]
    for i, evs in enumerate(pv):
        cases.append(["pv%d" % i, "c04", evs])
    # any number of copies of a request nobody has answered yet: each is absorbed by the transaction that holds the first (the
    # application may take its time - the client's timer E sends ten copies in 32 s)
    for i, (m, br, n) in enumerate((("OPTIONS", "z9hG4bKa", 9), ("OPTIONS", "z9hG4bKa", 12), ("INVITE", "z9hG4bKb", 12), ("BYE", "old1", 11), ("OPTIONS", "-", 10))):
        one = "M:q:%s:%s:1:%s:x:f:h1" % (m, m, br)
        cases.append(["rt%d" % i, "c04", ",".join([one] * (n + 1) + ["M:q:OPTIONS:OPTIONS:2:z9hG4bKother:y:g:h2"])])
    return cases


def model_case(case, impl):
    if case[2] in ("TIMED", "CLIENT"):
        return [case[0], "c04", ""]
    return case


def accepts(case, impl, model):
    if case[2] in ("TIMED", "CLIENT"):
        return True
    return impl == model


def _client_oracle(case, impl):
    """'a response is delivered only to the client transaction that sent the request with the same top-Via branch and CSeq
    method', at any time relative to the life of the transaction: the answer built from the request on the wire must be handed to
    the transaction that sent it"""
    if "PANIC" in impl:
        return ["panic: " + impl[:300]]
    arrs = [a.split(":") for a in case[5].split(",") if a]
    got = re.findall(r"\bG@\d+:(\w)", impl.split("\t")[0])
    want = ["P" if int(a[1]) < 200 else ("S" if int(a[1]) < 300 else "F") for a in arrs]
    if got[:len(want)] != want:
        return ["the response(s) %s carrying the branch and CSeq method of the %s client transaction arrived %s ms after the request went out "
                "(the first send returned after %s ms) but the transaction was handed %r" % (
                    "/".join(a[1] for a in arrs), "INVITE" if case[3] == "inv" else "non-INVITE", "/".join(a[0] for a in arrs), case[11] if len(case) > 11 else "0", got)]
    return []


def _timed_oracle(case, impl):
    """'once a transaction has ended the same identifiers start a new one': a server transaction answered at t0 over an
    unreliable transport ends 64*T1 later (RFC 3261 17.2.2, timer J / H); until then a request with its identifiers is
    absorbed, afterwards it is shown to the layers as a new request"""
    if "PANIC" in impl:
        return ["panic: " + impl[:300]]
    kind, rel, t0 = case[3], case[4] == "1", int(case[6])
    inj = [(int(x.split(":")[0]), x.split(":")[1]) for x in case[7].split(",") if x]
    layer = [int(m.group(1)) for m in re.finditer(r"\bL@(\d+)", impl)]
    if kind == "inv":
        # 'the ACK for a non-2xx final response is absorbed by the existing server transaction and never shown to the layers';
        # retransmitted INVITEs are absorbed too
        shown = re.findall(r"\bL@(\d+):(\w+)", impl)
        for t, m in shown:
            return ["%s at %s ms was shown to the layers although the INVITE server transaction answered at %d ms (with a non-2xx) owns it" % (m, t, t0)]
        return []
    if kind != "ni" or rel:
        return []
    late = [t for (t, k) in inj if k in ("R", "X") and t > t0 + 32000][:1]      # later ones are retransmissions of the new transaction
    early = [t for (t, k) in inj if k in ("R", "X") and t0 < t < t0 + 32000]
    got = [t for t in layer if t > 0]
    for t in early:
        if t in got:
            return ["a retransmission at %d ms (transaction answered at %d) was shown to the layers as a new request" % (t, t0)]
    for t in late:
        if t not in got:
            return ["the request arriving at %d ms, after the transaction answered at %d ms had ended (64*T1), was absorbed instead of starting a new transaction (retransmissions at %r)" % (t, t0, early)]
    return []


def oracle(case, impl):
    if case[2] == "CLIENT":
        return _client_oracle(case, impl)
    if case[2] == "TIMED":
        return _timed_oracle(case, impl)
    if "PANIC" in impl:
        return ["panic: " + impl[:300]]
    ref = Ref()
    evs = [e for e in case[2].split(",") if e]
    obs = impl.split(";")
    if len(obs) != len(evs):
        return ["malformed observation: %d outcomes for %d events" % (len(obs), len(evs))]
    for i, (ev, o) in enumerate(zip(evs, obs)):
        want = _apply(ref, ev)
        got, _, cnt = o.partition("/")
        if got != want:
            return ["event %d (%s): expected recipient %s, observed %s" % (i, ev, want, got)]
        if int(cnt) != len(ref.table):
            return ["event %d (%s): transaction table holds %s entries, %d live transactions/registrations expected" % (i, ev, cnt, len(ref.table))]
    return []


def nontrivial(case, impl):
    if case[2] in ("TIMED", "CLIENT"):
        return "|".join(case[3:8])
    obs = impl.split(";")
    evs = [e for e in case[2].split(",") if e]
    absorbed = any(o.startswith("-/") and e.startswith("M:q") for e, o in zip(evs, obs))
    delivered = any(o.startswith("c") for o in obs)
    return case[2] if (absorbed or delivered) else None


def distribution(cases, impl):
    import collections
    h = collections.Counter()
    for c in cases:
        if c[2] in ("TIMED", "CLIENT"):
            h["timed" if c[2] == "TIMED" else "client"] += 1
            continue
        o = impl.get(c[0], "")
        for x in o.split(";"):
            h[x[:1]] += 1
    return {"recipient_kinds": dict(h)}


def _valid(evs):
    """S/X events must refer to requests / handles that exist at that point"""
    ref = Ref()
    for ev in evs:
        p = ev.split(":")
        try:
            if p[0] == "S":
                h = ref.held[int(p[1])]
                if not (h["alive"] and not h["moved"] and h["key"] is not None and h["method"] == "INVITE"):
                    return False
            elif p[0] == "X":
                w = p[1]
                if w[0] in "ha" and int(w[1:]) >= len(ref.held):
                    return False
                if w[0] == "a" and not ref.held[int(w[1:])]["moved"]:
                    return False
                if w[0] == "c" and w[1:] not in ref.clients:
                    return False
            elif p[0] == "M" and p[5].startswith("@") and p[5][1:] not in ref.clients:
                return False
        except (IndexError, ValueError):
            return False
        _apply(ref, ev)
    return True


def shrink_candidates(case):
    if case[2] in ("TIMED", "CLIENT"):
        return []
    evs = case[2].split(",")
    out = []
    for i in range(len(evs)):
        rest = evs[:i] + evs[i + 1:]
        if rest and _valid(rest):
            out.append([case[0], case[1], ",".join(rest)])
    return out
