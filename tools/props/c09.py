"""C09 -- responses mirror the request and are routed per RFC 3261 sec. 18.2.2 / RFC 3581."""
import ipaddress

ID = "C09"
COQ_PROOF_TARGETS = ["Props/C09.vo"]
COQ_MODEL_TARGETS = ["Extract/ExC09.vo"]
CLAIM_TEXT = ("Theorems (coq/Props/C09.v, no axioms) over the model of Endpoint::create_response / add_received_rport / send_outgoing_*: "
              "Via values in order for any n >= 1 with only the top one stamped, From/To/Call-ID/CSeq copied, Timestamp only for 100, "
              "default reason phrase from the regenerated status-code table unless supplied; received= added iff the sent-by host differs "
              "from the packet source, an rport parameter filled with the source port and never invented, all other parameters and the "
              "sent-by untouched; destination by complete case analysis (connection -> its remote; maddr IPv4 literal -> maddr with the "
              "sent-by port or 5060; rport requested -> source ip and port; else the source); exactly one Content-Length equal to the body "
              "size whatever the application had put there; decimal print/parse round trip for ports and lengths. Correspondence: "
              "requests with 1..4 Via values, all host kinds, parameter subsets, sources, codes and both transport kinds against the "
              "real endpoint (destination and raw response bytes at the mock transport).")
CLAIM_NOTE = ("Trusted: Coq kernel; translator (status-code table); hand-written model Model/C09.v validated by differential runs; IP literals are "
              "(family, number, canonical text) triples whose text form is produced by Python's ipaddress and by Rust alike; maddr is modelled "
              "for IPv4 literals and non-literals only (IPv6 maddr is outside the model's domain and not generated); parameter names are "
              "matched case-sensitively as in the code.")
TRUSTED = [
    "Coq 8.16.1 kernel; no axioms",
    "tools/translate.py (status code -> reason table from sip-types/src/code.rs)",
    "hand-written model coq/Model/C09.v of endpoint.rs::{create_response, add_received_rport, send_outgoing_*}, validated by the correspondence run",
    "Lib/Num.v decimal printing/parsing (round trip proved)",
    "extraction (ExtrOcamlBasic only) + ocaml/util.ml + ocaml/c09_driver.ml; Rust harness harness/src/c09.rs",
]
ASSUMPTIONS = [
    "From/To/Call-ID/CSeq values are print/parse fixpoints (their text round trip is C01's subject)",
    "std::net address Display/FromStr agree with Python's ipaddress on canonical text (no IPv4-mapped IPv6 addresses generated)",
]
RULE = ("requests with 1..4 Via values x sent-by {IPv4, IPv6, host name} +- port x every subset of {maddr (IPv4 literal / name / garbage), "
        "rport (empty / with value), received} plus unrelated parameters x IPv4/IPv6 sources equal or different from the sent-by x status "
        "codes over all classes incl. unknown ones x supplied / default reason x Timestamp x application-set Content-Length x "
        "datagram / connection transport; non-trivial = the response reaches the mock transport; distinct = distinct case text")
PARTIAL = ["maddr given as an IPv6 literal is accepted by the code (parse::<IpAddr>) but is outside the model's domain"]

V4 = ["10.10.10.9", "10.10.10.10", "192.0.2.66", "0.0.0.0", "255.255.255.255"]
V6 = ["2001:db8::1", "::1", "fe80::1:2", "2001:db8:0:1::9"]
NAMES = ["proxy.example.org", "h", "a-b.c.example."]
CODES = [100, 180, 183, 199, 200, 202, 299, 300, 302, 400, 404, 481, 486, 500, 503, 600, 603, 699, 799, 150, 499]


def ipnum(t):
    return int(ipaddress.ip_address(t))


def addr(t, port):
    ip = ipaddress.ip_address(t)
    return "%d:%d:%s:%d" % (1 if ip.version == 6 else 0, int(ip), str(ip), port)


def gen_via(rng, top):
    kind = rng.choice(["4", "4", "6", "n"])
    if kind == "4":
        t = rng.choice(V4); num = ipnum(t); text = t
    elif kind == "6":
        t = rng.choice(V6); num = ipnum(t); text = "[%s]" % ipaddress.ip_address(t)
    else:
        text = rng.choice(NAMES); num = 0
    port = rng.choice(["-", "5060", "5070", "1", "65535"])
    params = ["branch=z9hG4bK%d" % rng.randrange(10 ** 6)]
    if rng.random() < (0.5 if top else 0.2):
        params.append(rng.choice(["rport", "rport", "rport=1234", "rport=99999", "rport=abc"]))
    if rng.random() < (0.35 if top else 0.1):
        params.append("maddr=" + rng.choice(["10.1.2.3", "224.0.1.75", "proxy.example.org", "01.2.3.4", "1.2.3", "256.1.1.1", "1.2.3.4.5", "0.0.0.0"]))
    if rng.random() < 0.25:
        params.append("received=" + rng.choice(["1.2.3.4", "9.9.9.9"]))
    if rng.random() < 0.3:
        params.append(rng.choice(["ttl=1", "x", "foo=bar", "alias"]))
    rng.shuffle(params)
    return "%s|%s|%d|%s|%s|%s" % (rng.choice(["UDP", "TCP", "TLS"]), kind, num, text, port, ";".join(params))


def gen_cases(rng, tier):
    cases = []
    n = 500 if tier == "quick" else 15000
    for i in range(n):
        conn = rng.random() < 0.3
        vias = [gen_via(rng, j == 0) for j in range(rng.randrange(1, 5))]
        # source: often equal to the top sent-by
        top = vias[0].split("|")
        if top[1] in "46" and rng.random() < 0.4:
            st = top[3].strip("[]")
        else:
            st = rng.choice(V4 + V6)
        src = addr(st, rng.choice([5060, 5062, 1024, 65535, 1]))
        code = rng.choice(CODES)
        reason = "-" if rng.random() < 0.7 else rng.choice(["Busy Here Now", "OK then", "x"]).encode().hex()
        ts = "-" if rng.random() < 0.6 else "|".join(t.encode().hex() for t in rng.sample(["54", "54 0.5", "7.25"], rng.randrange(1, 3)))
        cl = "-" if rng.random() < 0.7 else rng.choice(["17", "0", "5"])
        remote = addr(rng.choice(V4 + V6), rng.choice([5060, 40000])) if conn else "-"
        case = ["r%d" % i, "c09", "C" if conn else "D", src, "~".join(vias), str(code), reason, ts, cl, remote]
        if not conn and code >= 200 and rng.random() < 0.5:
            # the answer is lost and the request comes again - from the same place, or (when maddr names the destination anyway) from
            # somewhere else: the copy of the response goes where the first one went
            other = "maddr=" in vias[0] and rng.random() < 0.7
            case.append(addr(rng.choice(V4), rng.choice([5060, 40000])) if other else src)
        if rng.random() < 0.25:
            # From / To in the bare addr-spec form: the tag and the other parameters are header parameters all the same
            while len(case) < 11:
                case.append("-")
            case.append(str(rng.randrange(1, 4)))
        if rng.random() < 0.2:
            # a Call-ID is word ["@" word] (RFC 3261 25.1): characters a token may not contain are legal in it and are mirrored as they came
            while len(case) < 12:
                case.append("-")
            case.append(rng.choice(CALL_IDS).encode().hex())
        cases.append(case)
    # the request side of "every outgoing message carries a Content-Length equal to its body size": an INVITE (the application had put a
    # Content-Length of its own, or none) and the ACKs the transaction makes for a failure response and its retransmissions
    k = 0
    for rel in (0, 1):
        for appcl in ("", "17", "5", "0,9"):
            for arrs in ("700:486:a", "700:404:a,900:404:a,5000:404:a", "300:180:e,700:603:e"):
                cases.append(["q%d" % k, "c09", "Q", "inv", str(rel), arrs, "60000", "", "", ",".join("d" for _ in arrs.split(",")), "", "", "", "", appcl]); k += 1
    return cases


def model_case(case, impl):
    if case[2] == "Q":
        # the model run of the response side has nothing to say about these: a fixed valid response case keeps the driver's input well-formed
        return [case[0], "c09", "D", addr(V4[0], 5060), "UDP|4|%d|%s|5060|branch=z9hG4bK1" % (ipnum(V4[0]), V4[0]), "200", "-", "-", "-", "-"]
    return case


def accepts(case, impl, model):
    if case[2] == "Q":
        return True
    return impl == model


def _q_oracle(case, impl):
    if "PANIC" in impl:
        return ["panic: " + impl[:300]]
    msgs = []
    for p in impl.split("\t")[1:]:
        kind, _, hexs = p.partition(":")
        f = {}
        for kv in bytes.fromhex(hexs).decode("utf-8", "replace").split("||"):
            a, _, b = kv.partition("=")
            f[a] = b
        msgs.append((kind, f))
    if not any(k == "ACK" for k, _ in msgs) and "486" + "603" + "404":
        if not any(k == "INVITE" for k, _ in msgs):
            return ["no INVITE on the wire: " + impl[:200]]
    if not any(k == "ACK" for k, _ in msgs):
        return ["no ACK on the wire for the failure response"]
    for kind, f in msgs:
        vals = [x.split(":", 1)[1].strip() for x in (f.get("content-length", "") + "&&" + f.get("l", "")).split("&&") if x]
        if vals != [f.get("bodylen", "?")]:
            return ["the %s on the wire (%s) carries Content-Length values %r, its body has %s bytes: exactly one Content-Length equal to the body size expected" % (
                kind, f.get("line", ""), vals, f.get("bodylen"))]
    return []


CALL_IDS = ["a84b/4c76+e667:10@[2001:db8::10]", "{f81d4fae-7dec-11d0-a765-00a0c91e6bf6}@pc33.example.com", "x(1)<y>?\"z\"\\w@host", "a:b", "[x]", "f81d4fae%7dec@h_1.~*'!", "()<>:\\\"/[]?{}"]


def _call_id(case):
    return bytes.fromhex(case[12]).decode() if len(case) > 12 and case[12] not in ("", "-") else "c09-call@host"


def normalize_impl(case, s):
    s = s.split("|R:")[0]
    cid = _call_id(case)
    if cid != "c09-call@host":
        s = s.replace("|Call-ID: %s|" % cid, "|Call-ID: c09-call@host|")      # the model run uses the usual Call-ID; the oracle looks at this one
    return s


REASONS = None


def _reasons():
    global REASONS
    if REASONS is None:
        import re
        REASONS = {}
        for c, _, t in re.findall(r'\[(\d+) => (\w+), "([^"]*)"\];', open("/repo/crates/sip-types/src/code.rs").read()):
            REASONS[int(c)] = t
    return REASONS


def oracle(case, impl):
    """RFC 3261 8.2.6.2 / 18.2.1 / 18.2.2 and RFC 3581 applied to the raw response, independent of the model"""
    if case[2] == "Q":
        return _q_oracle(case, impl)
    if "PANIC" in impl:
        return ["panic: " + impl[:300]]
    if not impl.startswith("dest="):
        return ["no response observed: " + impl[:100]]
    parts = impl.split("|R:")[0].split("|")
    dest = parts[0][5:]
    line = parts[1]
    hdrs = [p.split(": ", 1) for p in parts[2:-1]]
    conn = case[2] == "C"
    sf = case[3].split(":", 2)
    stext, sport = sf[2].rsplit(":", 1)
    vias = [v.split("|") for v in case[4].split("~")]
    code = int(case[5])
    # status line
    reason = bytes.fromhex(case[6]).decode() if case[6] != "-" else _reasons().get(code)
    want_line = "SIP/2.0 %d" % code + (" " + reason if reason else "")
    if line != want_line:
        return ["status line %r, expected %r" % (line, want_line)]
    got_vias = [x.strip() for (n, v) in hdrs if n == "Via" for x in v.split(",")]      # one line per value or comma separated: equivalent
    if len(got_vias) != len(vias):
        return ["%d Via values in the response, %d in the request" % (len(got_vias), len(vias))]
    # lower Vias unchanged
    for v, g in zip(vias[1:], got_vias[1:]):
        want = "SIP/2.0/%s %s%s%s" % (v[0], v[3], "" if v[4] == "-" else ":" + v[4], "".join(";" + p for p in v[5].split(";") if p))
        if g != want:
            return ["lower Via changed: %r vs %r" % (g, want)]
    # top Via: received / rport
    top = vias[0]
    params = [p for p in top[5].split(";") if p]
    same_host = top[1] in "46" and int(top[2]) == int(sf[1]) and (top[1] == "6") == (sf[0] == "1")
    exp = []
    for p in params:
        name = p.split("=")[0]
        if name == "rport":
            exp.append("rport=%s" % sport)
        elif name == "received" and not same_host:
            exp.append("received=%s" % stext)
        else:
            exp.append(p)
    if not same_host and not any(p.split("=")[0] == "received" for p in params):
        exp.append("received=%s" % stext)
    # order: the code appends received at the end, then edits rport in place
    want_top = "SIP/2.0/%s %s%s%s" % (top[0], top[3], "" if top[4] == "-" else ":" + top[4], "".join(";" + p for p in exp))
    if sorted(got_vias[0].split(";")[1:]) != sorted(want_top.split(";")[1:]) or got_vias[0].split(";")[0] != want_top.split(";")[0]:
        return ["top Via %r, expected %r" % (got_vias[0], want_top)]
    for name, want in (("From", "<sip:a@example.org>;tag=ft;x=1"), ("To", "<sip:b@example.org>"), ("Call-ID", _call_id(case)), ("CSeq", "4242 OPTIONS")):
        vals = [v for (n, v) in hdrs if n == name]
        if vals != [want]:
            return ["%s values %r, request had %r" % (name, vals, want)]
    ts = [bytes.fromhex(h).decode() for h in case[7].split("|")] if case[7] != "-" else []
    got_ts = [v for (n, v) in hdrs if n == "Timestamp"]
    if got_ts != (ts if code == 100 else []):
        return ["Timestamp values %r (code %d, request had %r)" % (got_ts, code, ts)]
    cls = [v for (n, v) in hdrs if n == "Content-Length"]
    if cls != ["0"]:
        return ["Content-Length values %r for an empty body, expected exactly ['0']" % cls]
    # destination
    if conn:
        rf = case[9].split(":", 2)
        rtext, rport = rf[2].rsplit(":", 1)
        want_dest = ("[%s]:%s" if rf[0] == "1" else "%s:%s") % (rtext, rport)
    else:
        maddr = next((p.split("=", 1)[1] for p in params if p.startswith("maddr=")), None)
        ip = None
        if maddr is not None:
            try:
                a = ipaddress.ip_address(maddr)
                if a.version == 4 and str(a) == maddr:
                    ip = a
            except ValueError:
                ip = None
        if ip is not None:
            want_dest = "%s:%s" % (ip, top[4] if top[4] != "-" else "5060")
        else:
            want_dest = ("[%s]:%s" if sf[0] == "1" else "%s:%s") % (stext, sport)
    if dest != want_dest:
        return ["response sent to %s, RFC 3261 18.2.2 / RFC 3581 give %s" % (dest, want_dest)]
    if "|R:" in impl:
        r = impl.split("|R:")[1]
        if r != "dest=%s:same=1" % want_dest:
            return ["the request came again (from %s) and the response was repeated as %r; the same bytes to %s expected" % (case[10].split(":", 2)[2], r, want_dest)]
    return []


def nontrivial(case, impl):
    if case[2] == "Q":
        return "\t".join(case[2:])
    return "\t".join(case[2:]) if impl.startswith("dest=") else None


def distribution(cases, impl):
    import collections
    h = collections.Counter()
    for c in cases:
        if c[2] == "Q":
            h["requests (INVITE + ACKs)"] += 1
            continue
        top = c[4].split("~")[0]
        h["%s vias=%d maddr=%s rport=%s" % (c[2], len(c[4].split("~")), "maddr=" in top, "rport" in top)] += 1
    return dict(h)
