"""C10 -- in-dialog requests reach their dialog once each, in CSeq order."""
import itertools, re

ID = "C10"
COQ_PROOF_TARGETS = ["Props/C10.vo"]
COQ_MODEL_TARGETS = ["Extract/ExC10.vo"]
RELEASE_TOO = True
CLAIM_TEXT = ("Theorems (coq/Props/C10.v, no axioms) prove for every base n, every k and every arrival order of the k consecutive "
              "CSeq numbers up to the u32 limit that the model of DialogLayer hands each request to the usages exactly once, in "
              "increasing order, leaving nothing parked, for UAS- and UAC-created dialogs; plus key matching, non-interception, "
              "isolation of other dialogs, usage-guard and no-overflow lemmas. The model is tied to the code on every run by running "
              "the extracted model and the real sip-ua crate on the same histories (all permutations up to length 5/7, seeded mixed "
              "histories) and comparing every delivery; an independent RFC 3261 12.2.2 oracle judges the implementation directly.")
CLAIM_NOTE = ("Trusted: Coq kernel; hand-written model Model/C10.v (validated only by differential runs, not derived from the Rust "
              "source); extraction with ExtrOcamlBasic; harness mocks; atomicity of the locked section of DialogLayer::receive. "
              "Known finding F10c (late lower-CSeq request redelivered) is modelled as coded and lies outside the ordering theorem's "
              "hypotheses (permutations have no duplicates).")
TRUSTED = [
    "Coq 8.16.1 kernel (coqc, vm_compute); no axioms (Print Assumptions: closed under the global context)",
    "hand-written Gallina model coq/Model/C10.v of sip-ua/src/dialog/{layer,key}.rs, tied to the code by the correspondence run",
    "extraction (ExtrOcamlBasic only) + ocaml/util.ml + ocaml/c10_driver.ml",
    "Rust harness harness/src/c10.rs (mock transport, recording Usage/Layer, paused tokio clock), hooks H1/H3",
]
ASSUMPTIONS = [
    "each DialogLayer::receive runs its lookup/update under one mutex, so concurrent receives are a sequence of atomic steps",
    "requests of one case carry distinct Via branches (retransmissions with the same branch are absorbed by the transaction layer: C04)",
    "usages are offered a request in slot order; a usage that does not take it leaves it to the next one",
]
RULE = ("all permutations of k consecutive CSeq numbers (k<=5 quick, k<=7 thorough) above several bases incl. the u32 limit, "
        "for UAS- and UAC-created dialogs, plus seeded random histories mixing a second dialog, non-matching Call-ID/tag "
        "combinations, requests without To-tag, low-CSeq ACKs, usage-guard drops and late duplicates; a case is non-trivial "
        "when at least one request was held and later released or a non-matching request was passed on; distinct = distinct "
        "(setup, events) after removing request ids")
PARTIAL = ["F10c (known finding): a non-ACK request below the expected CSeq is delivered again (model mirrors the code)"]

U32 = 2 ** 32 - 1


def _recv(d, cseq, rid, ack=0, cid=None, ft=None, tt=None):
    return "R:%s:%s:%s:%d:%s:%d" % (cid or "c%d" % d, ft or "p%d" % d, tt or "l%d" % d, cseq, rid, ack)


def gen_cases(rng, tier):
    cases = []
    maxk = 5 if tier == "quick" else 7
    n = 0
    # a forked INVITE: two or three caller-side dialogs created through one builder (same Call-ID and local tag, one peer tag each);
    # every fork's requests reach its own usages, in order, whatever the other forks do
    fk = 0
    for nf in (2, 3):
        for perm in itertools.permutations(range(nf)):
            setup = ",".join(["C:1"] + ["F:1"] * (nf - 1))
            evs = []
            for r, d in enumerate(perm):
                evs.append(_recv(d, 10 * (d + 1), "a%d" % r, cid="c0", tt="l0"))
            for r, d in enumerate(perm):
                evs.append(_recv(d, 10 * (d + 1) + 2, "b%d" % r, cid="c0", tt="l0"))
                evs.append(_recv(d, 10 * (d + 1) + 1, "c%d" % r, cid="c0", tt="l0"))
            cases.append(["fork%d" % fk, "c10", setup, ",".join(evs)]); fk += 1
    # a forked call in which one fork is let go (the losing fork's early dialog is released): the other forks keep receiving - in order,
    # with gaps held and released - whatever was dropped next to them
    for nf, gone in ((2, 0), (2, 1), (3, 1), (3, 0)):
        setup = ",".join(["C:1"] + ["F:1"] * (nf - 1))
        evs = [_recv(d, 10 * (d + 1), "a%d" % d, cid="c0", tt="l0") for d in range(nf)]
        evs.append("X:%d" % gone)
        for d in range(nf):
            if d != gone:
                evs.append(_recv(d, 10 * (d + 1) + 2, "b%d" % d, cid="c0", tt="l0"))
                evs.append(_recv(d, 10 * (d + 1) + 1, "c%d" % d, cid="c0", tt="l0"))
        evs.append(_recv(gone, 10 * (gone + 1) + 1, "g0", cid="c0", tt="l0"))          # the released fork's peer: no dialog any more
        cases.append(["fork%d" % fk, "c10", setup, ",".join(evs)]); fk += 1
    # guards dropped while other threads are inside the dialog layer (several threads registering and dropping usages at once): a usage
    # stops receiving once its guard is dropped - afterwards the request reaches the usages whose guards are alive, and only them
    for j, (thr, it) in enumerate(((4, 3000), (8, 1500))):
        evs = [_recv(0, 8, "h0"), "T:0:%d:%d" % (thr, it), _recv(0, 9, "h1"), "D:0:0", "T:0:%d:%d" % (thr, it // 2), "U:0", _recv(0, 10, "h2")]
        cases.append(["thr%d" % j, "c10", "S:7:1", ",".join(evs)])
    # usages come and go while the dialog lives: a request is offered to exactly the usages whose guard is alive at that moment
    uk = 0
    for seq in (["U", "D:0", "U", "R"], ["D:0", "U", "R", "D:1", "R"], ["U", "U", "D:1", "U", "R", "D:3", "R", "D:0", "R"], ["D:0", "D:1", "U", "R"], ["U", "D:2", "D:0", "U", "U", "R", "D:1", "R"],
                ["D:1", "R", "U", "R", "D:2", "R", "U", "R"],
                # a window in which nobody is registered: the request that falls into it is still this dialog's (it is answered by the
                # dialog layer and counts), what follows after the next registration is delivered in order
                ["D:0", "D:1", "R", "U", "R"], ["D:0", "D:1", "R", "R", "U", "R", "R"], ["D:1", "D:0", "R", "U", "D:2", "R", "U", "R"]):
        evs = []
        c = 100
        evs.append(_recv(0, c, "q0")); c += 1
        for i, e in enumerate(seq):
            if e == "R":
                evs.append(_recv(0, c, "q%d" % (i + 1))); c += 1
            elif e == "U":
                evs.append("U:0")
            else:
                evs.append("D:0:%s" % e.split(":")[1])
        cases.append(["usg%d" % uk, "c10", "C:2", ",".join(evs)]); uk += 1
    for j, evs in enumerate(([ "D:0:0", _recv(0, 8, "e0"), "U:0", _recv(0, 9, "e1")], ["D:0:0", _recv(0, 9, "e0"), _recv(0, 8, "e1"), "U:0", _recv(0, 10, "e2")],
                             ["D:0:0", _recv(0, 8, "e0"), "U:0", _recv(0, 10, "e1"), _recv(0, 9, "e2")])):
        cases.append(["empty%d" % j, "c10", "S:7:1", ",".join(evs)])
    for j, evs in enumerate(([_recv(0, 8, "t0", tt="L0"), _recv(0, 8, "t1")], [_recv(0, 9, "t0", ft="P0"), _recv(0, 8, "t1"), _recv(0, 9, "t2")],
                             [_recv(0, 8, "t0", cid="C0"), _recv(0, 8, "t1", tt="L0", ft="P0"), _recv(0, 8, "t2")])):
        cases.append(["tagcase%d" % j, "c10", "S:7:1", ",".join(evs)])
    for j, evs in enumerate(([_recv(0, 100, "k0"), "K:1", _recv(0, 101, "k1")], ["K:10"], [_recv(0, 5, "k0"), "D:0:0", "K:3", "U:0", _recv(0, 6, "k1")])):
        cases.append(["stale%d" % j, "c10", "C:1", ",".join(evs)])
    # exhaustive permutations
    bases = [("S", 7), ("S", 0), ("C", None), ("S", U32 - 8)]
    for k in range(1, maxk + 1):
        for perm in itertools.permutations(range(1, k + 1)):
            kind, base = bases[n % len(bases)]
            if kind == "S":
                setup = "S:%d:1" % base
                evs = [_recv(0, base + p, "r%d" % i) for i, p in enumerate(perm)]
            else:
                b = 100
                setup = "C:1"
                evs = [_recv(0, b, "r0")] + [_recv(0, b + p, "r%d" % (i + 1)) for i, p in enumerate(perm)]
            cases.append(["perm%d" % n, "c10", setup, ",".join(evs)])
            n += 1
    # at the integer limit, every order of the last three numbers
    for perm in itertools.permutations([U32 - 2, U32 - 1, U32]):
        cases.append(["lim%d" % n, "c10", "S:%d:1" % (U32 - 3), ",".join(_recv(0, c, "r%d" % i) for i, c in enumerate(perm))])
        n += 1
    # a dialog whose creating request already sits at (or one below) the integer limit: the ACK carries that number
    for base, evs in ((U32, [("a", U32)]), (U32 - 1, [("a", U32 - 1), ("r", U32)]), (U32 - 1, [("r", U32), ("a", U32 - 1)]),
                      (U32, [("a", U32), ("a", U32)]), (U32 - 2, [("r", U32), ("a", U32 - 2), ("r", U32 - 1)])):
        cases.append(["lim%d" % n, "c10", "S:%d:1" % base, ",".join(_recv(0, c, "r%d" % i, ack=1 if k == "a" else 0) for i, (k, c) in enumerate(evs))])
        n += 1
    # a usage that TAKES what it is offered (as the invite usage does): every released request still reaches it
    for perm in itertools.permutations(range(1, 5)):
        cases.append(["meth%d" % n, "c10", "S:20:1:%s" % ["SUBSCRIBE", "REFER", "NOTIFY", "OPTIONS", "MESSAGE", "INFO"][n % 6], ",".join(_recv(0, 20 + p, "r%d" % i) for i, p in enumerate(perm))])
        cases.append(["take%d" % n, "c10", "S:20:1", ",".join(_recv(0, 20 + p, "r%d" % i) for i, p in enumerate(perm)), "take"]); n += 1
    for perm in ([2, 3, 1, 4], [3, 2, 1], [2, 1, 4, 3]):
        cases.append(["take%d" % n, "c10", "C:1", ",".join([_recv(0, 100, "r0")] + [_recv(0, 100 + p, "r%d" % (i + 1)) for i, p in enumerate(perm)]), "take"]); n += 1
    # two different requests with one number ahead of a gap: the second one must not displace the first
    for evs in ([("r", 13), ("r", 13), ("r", 11), ("r", 12), ("r", 14)], [("r", 12), ("r", 13), ("r", 12), ("r", 13), ("r", 11)], [("r", 15), ("r", 15), ("r", 15)]):
        cases.append(["dup%d" % n, "c10", "S:10:1", ",".join(_recv(0, c, "r%d" % i) for i, (k, c) in enumerate(evs))])
        n += 1
    # random mixed histories
    nrand = 250 if tier == "quick" else 6000
    for i in range(nrand):
        two = rng.random() < 0.5
        d0 = rng.choice(["S", "S", "C"])
        base0 = rng.choice([0, 1, 7, 2 ** 31, rng.randrange(0, 2 ** 31), U32 - rng.randrange(2, 12)])
        nus0 = rng.choice([1, 2, 3])
        setup = ["S:%d:%d" % (base0, nus0) if d0 == "S" else "C:%d" % nus0]
        base1 = rng.randrange(0, 1000)
        if two:
            setup.append("S:%d:1" % base1)
        k = rng.randrange(1, 9)
        if d0 == "C":
            base0 = rng.randrange(1, 5000)
            seq0 = [base0] + rng.sample(range(base0 + 1, base0 + 1 + k), k)
        else:
            k = min(k, U32 - base0)
            seq0 = rng.sample(range(base0 + 1, base0 + 1 + k), k)
        if rng.random() < 0.3 and len(seq0) > 2:
            seq0.pop(rng.randrange(1, len(seq0)))      # leave a gap: something stays parked
        evs = [("m0", c) for c in seq0]
        if two:
            k1 = rng.randrange(1, 5)
            for c in rng.sample(range(base1 + 1, base1 + 1 + k1), k1):
                evs.insert(rng.randrange(0, len(evs) + 1), ("m1", c))
        # noise: non-matching combinations
        for _ in range(rng.randrange(0, 4)):
            evs.insert(rng.randrange(0, len(evs) + 1), ("x", rng.choice(["cid", "ft", "tt", "nott", "noft", "swap", "ftcase", "ttcase", "cidcase"])))
        # low-CSeq ACK (passes through)
        if rng.random() < 0.4:
            evs.insert(rng.randrange(1, len(evs) + 1), ("ack", None))
        # usage drops (never the last usage of a dialog)
        drops = []
        if nus0 > 1 and rng.random() < 0.6:
            for u in rng.sample(range(nus0), rng.randrange(1, nus0)):
                drops.append(u)
        for u in drops:
            evs.insert(rng.randrange(0, len(evs) + 1), ("drop", u))
        # late duplicate of an already delivered number (F10c class), separate stream
        if rng.random() < 0.08:
            evs.append(("dup", seq0[0]))
        out = []
        rid = 0
        for kind, v in evs:
            rid += 1
            r = "q%d" % rid
            if kind == "m0":
                out.append(_recv(0, v, r))
            elif kind == "m1":
                out.append(_recv(1, v, r))
            elif kind == "ack":
                out.append(_recv(0, max(0, base0 - (0 if d0 == "C" else 0)), r, ack=1))
            elif kind == "dup":
                out.append(_recv(0, v, r))
            elif kind == "drop":
                out.append("D:0:%d" % v)
            elif kind == "x":
                c = rng.randrange(1, 50)
                if v == "cid":
                    out.append(_recv(0, c, r, cid="cx"))
                elif v == "ft":
                    out.append(_recv(0, c, r, ft="px"))
                elif v == "tt":
                    out.append(_recv(0, c, r, tt="lx"))
                elif v == "nott":
                    out.append(_recv(0, c, r, tt="-"))
                elif v == "noft":
                    out.append(_recv(0, c, r, ft="-"))
                elif v == "swap":
                    out.append(_recv(0, c, r, ft="l0", tt="p0"))
                elif v == "ftcase":
                    out.append(_recv(0, c, r, ft="P0"))          # tags (and Call-IDs) that differ in letter case only are other tags
                elif v == "ttcase":
                    out.append(_recv(0, c, r, tt="L0"))
                elif v == "cidcase":
                    out.append(_recv(0, c, r, cid="C0"))
        cases.append(["rnd%d" % i, "c10", ",".join(setup), ",".join(out)])
    return cases


def _parse_case(case):
    setup = []
    for d in case[2].split(","):
        p = d.split(":")
        if p[0] == "S":
            setup.append({"kind": "S", "base": int(p[1]), "nus": int(p[2]), "owner": len(setup)})
        elif p[0] == "F" and setup:
            # a further fork: the dialog shares Call-ID and local tag with the previous caller-side dialog, its peer tag is its own
            setup.append({"kind": "F", "base": None, "nus": int(p[1]), "owner": setup[-1]["owner"]})
        else:
            setup.append({"kind": "C", "base": None, "nus": int(p[1]), "owner": len(setup)})
    evs = [e.split(":") for e in case[3].split(",") if e]
    return setup, evs


def oracle(case, impl):
    """RFC 3261 12.2.2 reference written from the property text (independent of the Coq model)."""
    out = []
    if "PANIC" in impl:
        return ["panic: " + impl[:300]]
    setup, evs = _parse_case(case)
    obs = impl.split(";")
    if len(obs) != len(evs) + 1:
        return ["malformed observation (expected %d outcomes): %s" % (len(evs) + 1, impl[:200])]
    st = []
    for i, d in enumerate(setup):
        st.append({"next": None if d["base"] is None else d["base"] + 1, "parked": {}, "usages": list(range(d["nus"])),
                   "delivered": set(), "registered": d["nus"]})
    for e, o in zip(evs, obs):
        if e[0] == "D":
            d, u = int(e[1]), int(e[2])
            if u in st[d]["usages"]:
                st[d]["usages"].remove(u)
            continue
        if e[0] == "X":
            st[int(e[1])]["gone"] = True
            continue
        if e[0] == "T":
            continue
        if e[0] == "K":
            if o != "-":
                out.append("register_usage for a dialog that does not exist returned a guard (%s)" % o)
            continue
        if e[0] == "U":
            d = int(e[1])
            st[d]["usages"].append(st[d]["registered"])
            st[d]["registered"] += 1
            continue
        _, cid, ft, tt, cseq, rid, ack = e
        cseq = int(cseq)
        d = None
        for i in range(len(setup)):
            if cid == "c%d" % setup[i]["owner"] and ft == "p%d" % i and tt == "l%d" % setup[i]["owner"]:
                d = i
        if d is not None and st[d].get("gone"):
            d = None            # the dialog was released: its identifiers name nothing any more
        if d is None:
            if o != "N":
                out.append("request %s does not belong to any dialog but was intercepted: %s" % (rid, o))
            continue
        s = st[d]
        if s["next"] is None:
            s["next"] = cseq
        exp = []
        if ack == "1" and cseq < s["next"]:
            exp = [(cseq, rid)]                      # ACK with the INVITE's number passes through
        elif cseq < s["next"]:
            exp = None                               # out of order (RFC: 500); must not reach the usages
        elif cseq == s["next"]:
            exp = [(cseq, rid)]
            nxt = cseq + 1
            while nxt in s["parked"]:
                exp.append((nxt, s["parked"].pop(nxt)))
                nxt += 1
            s["next"] = nxt
        elif cseq in s["parked"]:
            # a number that is already parked: the waiting request keeps its place, this one is not held (and not delivered)
            if o not in ("N", "-"):
                out.append("request %s carries CSeq %d which is already parked: it must be left to the default handling, got %s" % (rid, cseq, o))
            continue
        else:
            s["parked"][cseq] = rid
            exp = []
        if exp is None:
            if o.startswith("V:"):
                out.append("late-lower-cseq: non-ACK request %s with CSeq %d below the expected %d was delivered again: %s" % (rid, cseq, s["next"], o))
            continue
        if not exp:
            if o != "H":
                out.append("request %s (CSeq %d) is ahead of a gap and must be held, got %s" % (rid, cseq, o))
            continue
        want = "V:%d:%s:%s" % (d, "+".join(str(u) for u in sorted(s["usages"])), " ".join("%d/%s" % x for x in exp))
        if not s["usages"] and ack != "1":
            want = "Z:" + " ".join("%d/%s" % x for x in exp)      # nobody registered: the dialog layer answers what it releases (404)
        if o != want:
            out.append("dialog %d: expected delivery %s, got %s" % (d, want, o))
    parked = sum(len(s["parked"]) for s in st)
    alive = len([1 for x in st if not x.get("gone")])
    if obs[-1] != "B=%d/%d" % (alive, parked):
        out.append("tables: expected B=%d/%d, got %s" % (alive, parked, obs[-1]))
    return out[:1] if out else []


def model_case(case, impl):
    if re.search(r"S:\d+:\d+:[A-Z]+", case[2]):
        # whichever request created the callee-side dialog, its CSeq is the base: the model has one kind of server dialog
        case = case[:2] + [re.sub(r"(S:\d+:\d+):[A-Z]+", r"\1", case[2])] + case[3:]
    if "T:" in case[3]:
        # registering and dropping a usage leaves the model's state as it was
        case = case[:3] + [",".join("K:9" if e.startswith("T:") else e for e in case[3].split(","))] + case[4:]
    if "X:" not in case[3]:
        return case
    gone = set()
    out = []
    for e in case[3].split(","):
        p = e.split(":")
        if p[0] == "X":
            gone.add(int(p[1]))
            out.append("K:9")          # no effect in the model
        elif p[0] == "R" and any(p[2] == "p%d" % g for g in gone) :
            out.append(":".join([p[0], "cgone"] + p[2:]))
        else:
            out.append(e)
    return case[:3] + [",".join(out)] + case[4:]


def normalize_model(case, s):
    import re
    if "X:" in case[3]:
        # the model keeps the released dialog's (empty) entry: count it out
        n = case[3].count("X:")
        s = re.sub(r"B=(\d+)/", lambda m: "B=%d/" % (int(m.group(1)) - n), s.strip())
    # a delivery to an empty set of usages is observed as the dialog layer's own answers
    return ";".join(re.sub(r"^V:\d+::", "Z:", o) for o in s.strip().split(";"))


def known(case, impl, violation, findings):
    for f in findings:
        if f["id"] == "F10c" and violation.startswith("late-lower-cseq"):
            return "F10c"
    return None


def nontrivial(case, impl):
    obs = impl.split(";")
    released = any(o.startswith("V:") and " " in o for o in obs)
    passed = "N" in obs
    if not (released or passed):
        return None
    # distinct after removing request ids
    import re
    return case[2] + "|" + re.sub(r":[a-z]\d+:", ":", case[3])


def distribution(cases, impl):
    import collections
    h = collections.Counter()
    ln = collections.Counter()
    for c in cases:
        o = impl.get(c[0], "")
        for x in o.split(";"):
            h[x[:1]] += 1
        ln[min(len(c[3].split(",")), 12)] += 1
    return {"outcome_kinds": dict(h), "events_per_case": {str(k): v for k, v in sorted(ln.items())}}


def shrink_candidates(case):
    evs = case[3].split(",")
    cands = []
    for i in range(len(evs)):
        rest = evs[:i] + evs[i + 1:]
        if rest:
            cands.append([case[0], case[1], case[2], ",".join(rest)])
    return cands
