"""C02 -- no network input can panic or hang the receive path."""
import re

ID = "C02"
COQ_PROOF_TARGETS = ["Props/C02.vo"]
COQ_MODEL_TARGETS = ["Extract/ExC02.vo"]
RELEASE_TOO = True
HARNESS_TIMEOUT = 3000
CLAIM_TEXT = ("Theorems (coq/Props/C02.v, no axioms), for EVERY byte string and every segmentation: the line splitter never indexes out of "
              "bounds and terminates (C02_pull_total); one datagram through parse_complete_sip returns a message or an error in the debug "
              "and in the release profile, for every Content-Length up to usize::MAX, and frames it like the reference (C02_datagram_total, "
              "C02_datagram_framing; C02_unchecked_refuted shows the unguarded form panics); do_receive never indexes an empty Via list "
              "(C02_top_via); the socket's receive task survives every packet sequence and handles each packet as if it came alone "
              "(C02_listener_survives, C02_valid_after_hostile); the stream decoder behind the FramedRead loop never panics and every "
              "decode call stops or consumes a byte (C02_stream_total); the decoder's second pass never slices outside a frame - for every byte stream in every segmentation "
              "(C02_stream_second_pass_total, by a run invariant: the saved offset and Content-Length stay a sound summary of the buffer) - "
              "and on well-formed frames it returns exactly the body, because the source slices with the saved length; the form that decodes it "
              "again from the headers is shown to panic (C02_second_pass_in_bounds, C02_stream_body_len_saved, C02_second_pass_unsaved_refuted); peer-fed counters stay in range (C02_cseq_limit, "
              "C02_session_timer_defined). The two guards are read from the source by the translator on every run (C02_guards_present). "
              "Correspondence/search: grammar-derived, mutated, truncated and random byte strings with extreme numerics through parse_complete "
              "(debug, and release in the thorough tier), through StreamingDecoder+FramedRead in random segmentations, through every typed "
              "header decoder, through REAL UDP and TCP listeners on loopback (each hostile packet followed by a valid OPTIONS that must be "
              "answered) and through the dialog/invite layers (hostile Session-Expires/Min-SE/CSeq/RAck values, then a probe).")
CLAIM_NOTE = ("PARTIAL: panic-freedom of the nom typed-header parsers, BytesStr::from_parse containment, "
              "tokio and allocation failure are not proved -- they are only "
              "exercised by the hostile streams (oracle: no panic, no hang, probes answered). MessageLine::parse is abstracted in the model "
              "(the harness reports its verdict per datagram).")
TRUSTED = [
    "Coq 8.16.1 kernel; no axioms",
    "hand-written models coq/Model/C02.v + Model/C03.v (usize arithmetic and Bytes::slice panics explicit); Gen/Tables.v guard flags regenerated from parse.rs / lib.rs by tools/translate_tables.py (regex-level translator)",
    "extraction (ExtrOcamlBasic only) + ocaml/util.ml + ocaml/c02_driver.ml",
    "Rust harness harness/src/c02.rs, c03.rs, ua.rs (hook H1 re-exports; real UDP/TCP sockets on 127.0.0.1)",
]
ASSUMPTIONS = [
    "a panic inside a task spawned per message (Endpoint::receive) does not end the transport's receive task; a panic inside handle_msg does (tokio task semantics)",
    "loopback networking is available to the check (UDP/TCP on 127.0.0.1)",
]
RULE = ("datagrams: valid messages x hostile Content-Length/CSeq/Session-Expires/... values (0, len-1, len, len+1, 2^16, 2^31, 2^32, 2^63, "
        "2^64-1-k, 2^64-1, 2^64, 10^30, signs, blanks, junk), every truncation of a valid message, leading CR/LF runs, lone CR, LF-only, "
        "invalid UTF-8, NUL, STUN-like first bytes, byte-level mutations and random bytes; the same strings as streams cut at random; typed "
        "header values; listener sequences; UA scenarios. non-trivial = input reaches the SIP parser and is not a plain valid message")
PARTIAL = ["nom typed-header parsers / BytesStr containment / tokio internals are exercised, not proved"]

CRLF = b"\r\n"
U64 = 2 ** 64


def h(b):
    return b.hex()


def base_headers(branch="z9hG4bKc02", cseq="1 OPTIONS", extra=()):
    return [b"Via: SIP/2.0/UDP 10.9.9.9:5060;branch=" + branch.encode(), b"From: <sip:a@example.org>;tag=f", b"To: <sip:b@example.org>",
            b"Call-ID: c02@x", b"CSeq: " + cseq.encode(), b"Max-Forwards: 70"] + list(extra)


def build(start=b"OPTIONS sip:b@example.org SIP/2.0", headers=None, body=b"", cl=None, cl_name=b"Content-Length", nl=CRLF):
    hs = list(base_headers() if headers is None else headers)
    if cl is not None:
        hs.append(cl_name + b": " + (cl if isinstance(cl, bytes) else str(cl).encode()))
    return nl.join([start] + hs) + nl + nl + body


def hostile_numbers(ln):
    return [0, 1, max(ln - 1, 0), ln, ln + 1, 255, 256, 65535, 65536, 2 ** 31 - 1, 2 ** 31, 2 ** 32 - 1, 2 ** 32, 2 ** 32 + 1, 2 ** 63 - 1, 2 ** 63,
            U64 - 1, U64 - 2, U64, U64 + 1, 10 ** 30, U64 - 1 - 100, U64 - 1 - 200, U64 - 50]


def number_texts(rng, ln):
    out = [str(n).encode() for n in hostile_numbers(ln)]
    out += [b"-1", b"+5", b" 5 ", b"5x", b"", b"0x10", b"1e3", b"00000000000000000000005", b"\t7\t", b"5 5", b"9" * 40, b"\xc2\xa05", b"5\xe2\x80\x83"]
    return out


def mutate(rng, m):
    m = bytearray(m)
    k = rng.randrange(1, 4)
    for _ in range(k):
        op = rng.randrange(7)
        if not m:
            m = bytearray(b"x")
        pos = rng.randrange(len(m))
        if op == 0:
            m[pos] ^= 1 << rng.randrange(8)
        elif op == 1:
            del m[pos:pos + rng.randrange(1, 6)]
        elif op == 2:
            m[pos:pos] = bytes(rng.choice([b"\r", b"\n", b"\r\n", b":", b" ", b"\t", b"\x00", b"\xff", b"\r\n\r\n", b"\n\n", b"\xc3", b"l:9"]))
        elif op == 3:
            j = rng.randrange(len(m))
            a, b = min(pos, j), max(pos, j)
            m[a:a] = m[a:b][:40]
        elif op == 4:
            m[pos] = rng.randrange(256)
        elif op == 5:
            del m[pos:]
        else:
            m[pos:pos + 1] = bytes([rng.choice(b"\r\n :;<>\"%@")])
    return bytes(m)


def datagrams(rng, tier):
    """(label, bytes) -- the hostile byte strings shared by the dg and st kinds"""
    out = []
    body = b"0123456789"
    for cln in (b"Content-Length", b"l", b"CONTENT-LENGTH", b"content-length ", b"L"):
        for t in number_texts(rng, len(body)):
            out.append(("cl", build(body=body, cl=t, cl_name=cln)))
            if cln == b"l":
                out.append(("cl-first", build(headers=[b"l: " + t] + base_headers(), body=body)))
    # two Content-Length headers, folded value, no colon
    out.append(("cl2", build(headers=base_headers(extra=[b"Content-Length: 3", b"Content-Length: 18446744073709551615"]), body=body)))
    out.append(("cl2", build(headers=base_headers(extra=[b"l: 18446744073709551615", b"Content-Length: 3"]), body=body)))
    out.append(("clfold", build(headers=base_headers(extra=[b"Content-Length:\r\n 5"]), body=body)))
    out.append(("clnocolon", build(headers=base_headers(extra=[b"Content-Length 5"]), body=body)))
    out.append(("clnocolon", build(headers=base_headers(extra=[b"l"]), body=body)))
    valid = [build(), build(body=b"hello", cl=5), build(start=b"SIP/2.0 200 OK", body=b"xy", cl=2), build(nl=b"\n", body=b"abc", cl=3),
             build(start=b"INVITE sip:b@example.org SIP/2.0", headers=base_headers(cseq="7 INVITE", extra=[b"Contact: <sip:a@10.9.9.9>", b"Subject: a\r\n folded"]))]
    for v in valid:
        out.append(("valid", v))
        step = 1 if tier == "thorough" else 3
        for i in range(0, len(v), step):
            out.append(("trunc", v[:i]))
        for pre in (b"\r\n", b"\r\n\r\n", b"\n", b"\r", b"\n\r", b"\r\r\n", b"\r\n" * 40, b" ", b"\t\r\n"):
            out.append(("lead", pre + v))
        out.append(("lonecr", v.replace(b"\r\n", b"\r")))
        out.append(("lfonly", v.replace(b"\r\n", b"\n")))
        out.append(("mixed", v.replace(b"\r\n", b"\n", 2)))
        out.append(("nul", v.replace(b"a", b"\x00", 3)))
        out.append(("utf8", v.replace(b"example", b"ex\xff\xfemple")))
        out.append(("utf8", v.replace(b"example", "exämple€𝄞".encode())))
        out.append(("utf8", v.replace(b"OPTIONS", b"OPT\xc3IONS")))
        out.append(("longline", v.replace(b"tag=f", b"tag=" + b"f" * 5000)))
        out.append(("nohead", v.split(b"\r\n\r\n")[0] if b"\r\n\r\n" in v else v))
    # the first characters beyond ASCII (U+007F..U+0100) at every place a character-class predicate looks at: header name, method,
    # request URI user / host / parameter, Via parameter, unquoted display name, tag
    for ch in ("\u007f", "\u0080", "\u0081", "\u00ff", "\u0100", "\u07ff", "\u0800"):
        c = ch.encode("utf-8")
        for m in (build(headers=base_headers(extra=[b"X" + c + b"Y: v"])), build(start=b"OPT" + c + b" sip:b@example.org SIP/2.0"), build(start=b"OPTIONS sip:b" + c + b"@example.org SIP/2.0"),
                  build(start=b"OPTIONS sip:b@exa" + c + b"mple.org SIP/2.0"), build(start=b"OPTIONS sip:b@example.org;p" + c + b"=1 SIP/2.0"),
                  build(start=b"OPTIONS sip:b@example.org;p=v" + c + b" SIP/2.0"), build(start=b"OPTIONS sip:b:pw" + c + b"@example.org SIP/2.0"),
                  build(headers=[b"Via: SIP/2.0/UDP 10.9.9.9:5060;branch=z9hG4bKc02;x" + c + b"=1"] + base_headers()[1:]),
                  build(headers=[base_headers()[0], b"From: Al" + c + b"ce <sip:a@example.org>;tag=f"] + base_headers()[2:]),
                  build(headers=[base_headers()[0], b"From: <sip:a@example.org>;tag=f" + c] + base_headers()[2:]),
                  build(headers=base_headers(cseq="1 OPT" + ch)) if False else build(headers=[x for x in base_headers() if not x.startswith(b"CSeq")] + [b"CSeq: 1 OPT" + c])):
            out.append(("edge", m))
    # escapes in every component of a URI that may carry them - also the (deprecated, still legal) password - in the Request-URI and in
    # From / To / Contact
    for uri in (b"sip:bob:pa%24s@example.org", b"sip:bob:%41@example.org", b"sip:b%6Fb:pw%3A%40x@example.org", b"sips:a:%25%32%35@example.org:5061", b"sip:bob:pa%zzs@example.org",
                b"sip:bob:%@example.org", b"sip:bob:p%4@example.org", b"sip:%62ob@ex%61mple.org", b"sip:bob@example.org;p%61r=v%61l", b"sip:bob@example.org?h%61=v%61l", b"sip:bob:%c3%a9@example.org",
                b"sip:bob:%ff%fe@example.org"):
        out.append(("edge", build(start=b"OPTIONS " + uri + b" SIP/2.0")))
        out.append(("edge", build(headers=[base_headers()[0], b"From: <" + uri + b">;tag=f"] + base_headers()[2:])))
        out.append(("edge", build(headers=base_headers(extra=[b"Contact: <" + uri + b">"]))))
    for s in (b"", b"\r", b"\n", b"\r\n\r", b"\r\n\r\n\r\n", b":", b"a:b", b"\r\n:\r\n\r\n", b"X\r\n\r\n", b"X\r\n:\r\n\r\n", b" \r\n\r\n", b"SIP/2.0\r\n\r\n",
              b"SIP/2.0 999999999999999999999 x\r\n\r\n", b"SIP/2.0 99 x\r\n\r\n", b"OPTIONS  SIP/2.0\r\n\r\n", b"OPTIONS sip:%zz SIP/2.0\r\n\r\n",
              b"OPTIONS sip:[::1 SIP/2.0\r\n\r\n", b"OPTIONS sip:a@b:99999 SIP/2.0\r\n\r\n", b"OPTIONS sip:a SIP/9.9\r\n\r\n", b"\x00\x01\x00\x00\x21\x12\xa4\x42" + b"\x00" * 12,
              b"\x00\x01\x00\x08\x21\x12\xa4\x42" + b"\x00" * 12, b"\x00\x01\xff\xfc\x21\x12\xa4\x42" + b"\x00" * 12, b"\x01", b"\x00" * 20, b"\x00\x00\x00\x00OPTIONS"):
        out.append(("tiny", s))
    n_mut = 400 if tier == "quick" else 6000
    for _ in range(n_mut):
        out.append(("mut", mutate(rng, rng.choice(valid + [build(body=body, cl=10)]))))
    for _ in range(100 if tier == "quick" else 1500):
        n = rng.randrange(0, 120)
        alphabet = rng.choice([bytes(range(256)), b"\r\n: lL0123456789", b"\r\n \tab:"])
        out.append(("rand", bytes(rng.choice(alphabet) for _ in range(n))))
    return out


HDR_NAMES = [b"Via", b"v", b"From", b"f", b"To", b"t", b"Call-ID", b"i", b"CSeq", b"Contact", b"m", b"Content-Length", b"l", b"Content-Type", b"c", b"Expires", b"Min-Expires",
             b"Max-Forwards", b"RAck", b"RSeq", b"Replaces", b"Retry-After", b"Subscription-State", b"Session-Expires", b"x", b"Min-SE", b"Event", b"o", b"Accept", b"Allow",
             b"Supported", b"k", b"Require", b"Route", b"Record-Route", b"WWW-Authenticate", b"Proxy-Authenticate", b"Authorization", b"Proxy-Authorization"]

HDR_VALUES = [b"", b" ", b",", b",,", b";", b";;=", b"<", b"<>", b"<sip:", b"<sip:a@b", b"\"", b"\"unterminated", b"\"a\\", b"sip:", b"sip:@", b"sip:a@[::1", b"sip:a@b:99999",
              b"sip:a@b;=;", b"sip:%", b"sip:%zz@b", b"SIP/2.0/UDP", b"SIP/2.0/UDP ;branch", b"SIP/2.0/UDP a;ttl=999999999999", b"SIP/2.0/UDP [::1]:5060;rport=99999;received=x",
              b"1 2 3", b"99999999999999999999 INVITE", b"4294967295 INVITE", b"4294967296 INVITE", b"-1 INVITE", b"1", b"1 ", b" 1 INVITE", b"4294967295 4294967295 INVITE",
              b"18446744073709551615", b"4294967295", b"4294967296", b"0", b"-0", b"1;refresher=uas", b"0;refresher=uac", b"4294967295;refresher=uas", b"90;refresher=", b"90;refresher=x",
              b"active;expires=99999999999999", b"terminated;reason=;retry-after=-1", b"5 (comment", b"5 (a(b)c);duration=x", b"a@b;to-tag=;from-tag", b"a;to-tag=1;from-tag=2;early-only;x=\"",
              b"Digest", b"Digest ", b"Digest realm", b"Digest realm=", b"Digest realm=\"", b"Digest realm=\"a\", nonce=\"b\", qop=\"", b"Digest realm=\"a\",nonce=\"b\",algorithm=,qop=\"auth,,\"",
              b"Digest username=\"a\", realm=\"b\", nonce=\"c\", uri=\"d\", response=\"e\", nc=zzzzzzzz, qop=auth, cnonce=\"x\"", b"Digest username*=UTF-8''%zz, realm=\"b\", nonce=\"c\", uri=\"d\", response=\"e\"",
              b"Basic \xc3\xa4", "ä€𝄞".encode(), b"a" * 3000, b"text/", b"/", b"a/b;c", b"*", b"100rel,,timer", b"<sip:a@b;lr>,", b"<sip:a@b;lr>,<", b"\"x\" <sip:a@b>;tag", b"\"x\" <sip:a@b>;tag=;q=x;expires=-1",
              b"\x00", b"\x7f", b"a\tb", b"=?", b"%41", b"a;b;c;d;e=f=g"]


def _stream_cuts(rng, data):
    if len(data) < 2:
        return [data]
    k = rng.randrange(0, 5)
    cuts = sorted(set(rng.sample(range(1, len(data)), min(k, len(data) - 1))))
    out, prev = [], 0
    for c in cuts:
        out.append(data[prev:c]); prev = c
    out.append(data[prev:])
    return [c for c in out if c]


def _indialog(method, cseq, extra=b"", branch=b"z9hG4bKraw1", cm=None):
    """cm: the method named in CSeq when it is to differ from the request line (nothing on the receive path checks that they agree)"""
    cs = cseq if isinstance(cseq, bytes) else str(cseq).encode()
    return (method + b" sip:me@10.0.0.1 SIP/2.0\r\nVia: SIP/2.0/UDP 10.9.9.9:5060;branch=" + branch + b"\r\nFrom: <sip:peer@example.org>;tag=ptag\r\n"
            b"To: <sip:me@example.org>;tag=@@TAG@@\r\nCall-ID: ua-call\r\nCSeq: " + cs + b" " + (cm or method) + b"\r\nMax-Forwards: 70\r\n" + extra + b"Content-Length: 0\r\n\r\n")


def ep_cases(rng, tier):
    cases = []
    n = 0
    timers = [b"Supported: timer\r\nSession-Expires: %s\r\n" % v for v in
              (b"1", b"0", b"9", b"10", b"11", b"89", b"90", b"4294967295", b"4294967296", b"99999999999999999999", b"1;refresher=uas", b"5;refresher=uac",
               b"4294967295;refresher=uas", b"4294967295;refresher=uac", b"-1", b"x", b"")]
    timers += [b"Supported: timer\r\nMin-SE: %s\r\nSession-Expires: 100\r\n" % v for v in (b"0", b"4294967295", b"4294967296", b"-5", b"x", b"99999999999999999999")]
    timers += [b"Require: 100rel\r\nSupported: 100rel\r\n", b"Require: foo,,bar\r\n", b"Supported: timer\r\nSession-Expires: 90\r\nSession-Expires: 1\r\n"]
    for tmr in timers:
        script = "0:inv:%s,100:accept,200:ack,300:options,700000:options" % tmr.hex()
        cases.append(["ep%d" % n, "c02", "ep", "uas", "-", script, "1"]); n += 1
    # hostile in-dialog requests after the dialog is established
    hostile = []
    for cs in (b"0", b"4294967295", b"4294967296", b"99999999999999999999", b"-1", b"315", b"4294967294"):
        for m in (b"BYE", b"INFO", b"UPDATE", b"INVITE", b"PRACK", b"ACK", b"CANCEL", b"FOO"):
            hostile.append(_indialog(m, cs, branch=b"z9hG4bKh%d" % len(hostile)))
    # request line and CSeq name different methods: the transaction key follows CSeq, the dispatch the request line
    for m, cm in ((b"BYE", b"INVITE"), (b"INFO", b"ACK"), (b"INVITE", b"OPTIONS"), (b"UPDATE", b"CANCEL"), (b"ACK", b"BYE"), (b"CANCEL", b"INVITE"), (b"PRACK", b"INVITE"), (b"FOO", b"ACK")):
        hostile.append(_indialog(m, 350 + len(hostile), branch=b"z9hG4bKh%d" % len(hostile), cm=cm))
    for extra in (b"RAck: garbage\r\n", b"RAck: 4294967295 4294967295 INVITE\r\n", b"RAck: 1 314 \r\n", b"RAck: 99999999999 1 INVITE\r\n", b"RAck:\r\n"):
        hostile.append(_indialog(b"PRACK", 400 + len(hostile), extra, branch=b"z9hG4bKh%d" % len(hostile)))
    for extra in (b"Session-Expires: 1\r\nSupported: timer\r\n", b"Session-Expires: 4294967295;refresher=uas\r\nSupported: timer\r\n", b"Min-SE: 4294967295\r\nSession-Expires: 1\r\n",
                  b"Session-Expires: 99999999999\r\n", b"Contact: <\r\n", b"Contact: garbage\r\n", b"Replaces: x\r\n", b"Route: <\r\n", b"Record-Route: ,\r\n"):
        hostile.append(_indialog(b"INVITE", 500 + len(hostile), b"Contact: <sip:peer@10.9.9.9>\r\n" + extra, branch=b"z9hG4bKh%d" % len(hostile)))
        hostile.append(_indialog(b"UPDATE", 500 + len(hostile), extra, branch=b"z9hG4bKh%d" % len(hostile)))
    rng.shuffle(hostile)
    per = 6
    groups = [hostile[i:i + per] for i in range(0, len(hostile), per)]
    if tier == "quick":
        groups = groups[:10]
    for g in groups:
        for state in ("est", "early", "none"):
            pre = {"est": "0:inv,100:accept,200:ack", "early": "0:inv,100:prov:180", "none": ""}[state]
            t = 1000
            steps = [pre] if pre else []
            for raw in g:
                steps.append("%d:raw:%s" % (t, raw.hex())); t += 500
                steps.append("%d:options" % (t,)); t += 500
            steps.append("%d:options" % (t + 70000,))
            cases.append(["ep%d" % n, "c02", "ep", "uas", "-", ",".join(steps), str(rng.randrange(1, 1000))]); n += 1
    # the top of the CSeq range: dialogs created by an INVITE a few numbers below 2^32-1, then in-dialog requests up to the limit in
    # every order (a request ahead of a gap is parked, the gap filler releases it: the release loop must stop at the limit)
    TOP = 4294967295
    k = 0
    for base in (TOP - 3, TOP - 2, TOP - 1, TOP):
        nums = list(range(base + 1, TOP + 1)) + [TOP]
        orders = [nums, list(reversed(nums))] + [rng.sample(nums, len(nums)) for _ in range(2)]
        for order in orders:
            t = 1000
            steps = ["0:inv,100:accept,200:ack"]
            for c in order:
                steps.append("%d:raw:%s" % (t, _indialog(rng.choice([b"INFO", b"UPDATE", b"FOO"]), c, branch=b"z9hG4bKtop%d" % t).hex())); t += 300
            steps.append("%d:options" % t)
            steps.append("%d:options" % (t + 70000,))
            cases.append(["ep%d" % n, "c02", "ep", "uas", "cseq=%d" % base, ",".join(steps), str(1 + k)]); n += 1; k += 1
    # caller side: hostile values in the answers to our INVITE
    for tmr in (b"Supported: timer\r\nSession-Expires: 1;refresher=uac\r\n", b"Supported: timer\r\nSession-Expires: 4294967295;refresher=uas\r\n", b"Require: timer\r\nSession-Expires: 0\r\n",
                b"Session-Expires: 99999999999999\r\n", b"Min-SE: 4294967295\r\n", b"RSeq: 4294967295\r\nRequire: 100rel\r\n", b"RSeq: 99999999999\r\nRequire: 100rel\r\n", b"Contact: <\r\n",
                b"Record-Route: <sip:p;lr>,<\r\n"):
        for code in (180, 200):
            ex = (b"Contact: <sip:peer@10.9.9.9>\r\n" if b"Contact" not in tmr else b"") + tmr
            script = "0:invite,1000:resp:%d:ta:%s,2000:resp:200:ta:%s,3000:options,100000:options" % (code, ex.hex(), ex.hex())
            cases.append(["ep%d" % n, "c02", "ep", "uac", "se=1800", script, "1"]); n += 1
    return cases


def net_cases(rng, tier, dgs):
    cases = []
    hostile = [d for (lab, d) in dgs if lab in ("cl", "cl2", "cl-first", "tiny", "mut", "lead", "utf8", "nul") and len(d) < 1400]
    edge = [d for (lab, d) in dgs if lab == "edge"]
    # a message without any usable Via, unparsable From/To/CSeq, huge CSeq
    specials = [build(headers=[b"Via: garbage"] + base_headers()[1:]), build(headers=base_headers()[1:]), build(headers=base_headers(cseq="99999999999 OPTIONS")),
                build(headers=[x for x in base_headers() if not x.startswith(b"From")] + [b"From: <"]), build(headers=base_headers(cseq="1 INVITE")),
                build(start=b"ACK sip:b@example.org SIP/2.0", headers=base_headers(cseq="1 ACK")), build(start=b"SIP/2.0 200 OK"), build(start=b"CANCEL sip:b@example.org SIP/2.0", headers=base_headers(cseq="1 CANCEL"))]
    # request line and CSeq disagree about the method (and so about the kind of transaction): nobody takes these, the endpoint answers
    specials += [build(start=m + b" sip:b@example.org SIP/2.0", headers=base_headers(branch="z9hG4bKmm%d" % i, cseq="7 " + cm))
                 for i, (m, cm) in enumerate(((b"MESSAGE", "INVITE"), (b"INVITE", "OPTIONS"), (b"BYE", "ACK"), (b"INFO", "CANCEL"), (b"ACK", "INVITE"), (b"CANCEL", "INVITE"), (b"REGISTER", "ACK"), (b"INVITE", "ACK")))]
    n_groups = 6 if tier == "quick" else 60
    for g in range(n_groups):
        pk = [rng.choice(hostile) for _ in range(10)] + [rng.choice(specials) for _ in range(3)]
        if g == 1:
            pk = specials[8:] + [rng.choice(hostile) for _ in range(4)]
        if g in (2, 3):
            pk = rng.sample(edge, 12) + [rng.choice(hostile) for _ in range(2)]
        if g == 0:
            pk = [d for (lab, d) in dgs if lab in ("cl", "cl2") and b"1844674407370955" in d][:12] + specials
        rng.shuffle(pk)
        script = ["P"]
        for p in pk:
            script += ["S:" + p.hex(), "P"]
        cases.append(["udp%d" % g, "c02", "udp", ",".join(script)])
        # tcp: well-framed hostile messages keep the connection; anything else is followed by a new connection
        script = ["P"]
        for p in pk:
            framed = p in specials
            if framed:
                script += ["S:" + p.hex(), "P"]
            else:
                script += ["S:" + p.hex(), "N", "P"]
        cases.append(["tcp%d" % g, "c02", "tcp", ",".join(script)])
    return cases


def gen_cases(rng, tier):
    cases = []
    dgs = datagrams(rng, tier)
    for i, (lab, d) in enumerate(dgs):
        cases.append(["dg-%s-%d" % (lab, i), "c02", "dg", h(d)])
    # streams: the same strings (and pairs: hostile then valid) in random segmentations
    valid = build(body=b"ok", cl=2)
    stride = 2 if tier == "quick" else 1
    for i, (lab, d) in enumerate(dgs[::stride]):
        data = d + (valid if rng.random() < 0.5 else b"")
        if not data:
            continue
        cases.append(["st-%s-%d" % (lab, i), "c02", "st", "|".join(h(c) for c in _stream_cuts(rng, data))])
    # limits of the stream decoder: heads around 4096, bodies around 65535
    for pad in (3900, 3990, 4000, 4090, 4096, 4200):
        m = build(headers=base_headers(extra=[b"X-Pad: " + b"p" * pad]), body=b"tail", cl=4)
        cases.append(["st-head-%d" % pad, "c02", "st", "|".join(h(c) for c in _stream_cuts(rng, m + valid))])
    for cl in (65535, 65536, 70000):
        m = build(body=b"b" * min(cl, 66000), cl=cl)
        cases.append(["st-body-%d" % cl, "c02", "st", "|".join(h(c) for c in _stream_cuts(rng, m + valid))])
    # typed header decoders
    k = 0
    for name in HDR_NAMES:
        vals = HDR_VALUES if tier == "thorough" else rng.sample(HDR_VALUES, 24)
        for v in vals:
            m = b"OPTIONS sip:a SIP/2.0\r\n" + name + b": " + v + b"\r\n\r\n"
            cases.append(["hdr-%d" % k, "c02", "hdr", h(m)]); k += 1
    for _ in range(200 if tier == "quick" else 3000):
        name = rng.choice(HDR_NAMES)
        v = mutate(rng, rng.choice(HDR_VALUES + [b"<sip:alice@example.org:5060;transport=tcp>;tag=abc;q=0.5", b"SIP/2.0/UDP 10.0.0.1:5060;branch=z9hG4bK1;rport;received=1.2.3.4",
                                                 b"Digest realm=\"r\", nonce=\"n\", algorithm=SHA-256, qop=\"auth,auth-int\", opaque=\"o\", userhash=true"]))
        v = v.replace(b"\r", b" ").replace(b"\n", b" ")
        m = b"OPTIONS sip:a SIP/2.0\r\n" + name + b": " + v + b"\r\n\r\n"
        cases.append(["hdr-%d" % k, "c02", "hdr", h(m)]); k += 1
    # grammar-aware placements of multi-byte characters: after a backslash inside quoted strings, after '%', next to every
    # delimiter of name-addr / parameters / auth headers (byte-indexed slicing of a str panics off a char boundary)
    frags = ["\\é", "\\𝄞", "é\\", "\\é\\", "%é", "é%4", "%4é", "\"é", "é\"", "é", "𝄞", "\\", "ä€", "\\\u00a0", "\u2028"]
    templates = ['"X" <sip:a@b>;tag=1', '"aXb" <sip:a@b>', 'X <sip:a@b>', '<sip:X@b>', '<sip:a:X@b>', '<sip:a@b;X=1>', '<sip:a@b;p=X>', '<sip:a@b?h=X>', '<sip:a@b>;p="X"',
                 '<sip:a@b>;X', 'Digest realm="X", nonce="n"', 'Digest username="X", realm="r", nonce="n", uri="sip:a", response="r"', 'Digest realm="r", nonce="n", qop="X"',
                 'Digest realm=X', 'SIP/2.0/UDP h;branch=X', 'SIP/2.0/UDP h;received="X"', 'SIP/2.0/X h', 'X/X', '5 (X)', 'a;reason=X', '"X', '"a\\X', 'X', '1 X', 'a@b;to-tag=X;from-tag=1']
    tnames = [b"From", b"t", b"Contact", b"Route", b"Record-Route", b"Via", b"Authorization", b"WWW-Authenticate", b"Proxy-Authenticate", b"Content-Type", b"Retry-After",
              b"Subscription-State", b"Replaces", b"CSeq", b"Event", b"Accept"]
    combos = [(nm, t, f) for nm in tnames for t in templates for f in frags]
    if tier == "quick":
        combos = rng.sample(combos, 500) + [(nm, t, f) for nm in (b"From", b"Contact", b"Route") for t in templates[:2] for f in frags[:4]]
    for nm, t, f in combos:
        m = b"OPTIONS sip:a SIP/2.0\r\n" + nm + b": " + t.replace("X", f).encode("utf-8") + b"\r\n\r\n"
        cases.append(["hdr-%d" % k, "c02", "hdr", h(m)]); k += 1
    cases += net_cases(rng, tier, dgs)
    cases += ep_cases(rng, tier)
    return cases


def normalize_impl(case, s):
    return s.split("\tPANIC")[0].strip()


def accepts(case, impl, model):
    kind = case[2]
    if kind == "dg":
        if impl == "STUN":
            return True          # demultiplexed to the STUN parser: C20's subject
        if impl == "KA":
            return model == "KA"
        if impl.startswith("OK:"):
            _, he, bl = impl.split(":")
            if not model.startswith("OK:"):
                return False
            _, mhe, mbl = model.split(":")
            return bl == mbl and (he == "-" or he == mhe)
        if impl.startswith("ERR:sl=1"):
            return model == "ERR"
        if impl.startswith("ERR:sl=0"):
            return model == "ERR" or model.startswith("OK:")     # start line rejected: abstracted in the model
        return False
    if kind == "st":
        ii, mm = impl.split(), model.split()
        if ii == mm:
            return True
        # the implementation may reject a frame's start line (abstracted by the model): the stream ends there
        n = len(ii)
        return n >= 1 and n <= len(mm) and ii[:n - 1] == mm[:n - 1] and ii[n - 1] == "E:Malformed" and mm[n - 1].startswith("F:")
    if kind == "udp":
        m = re.match(r"NET alive=(\w+)/(\w+)", model)
        i = re.match(r"NET probes=(\d+)_answered=(\d+)", impl)
        if not m or not i:
            return False
        alive = m.group(1) == "true"
        return alive == (i.group(1) == i.group(2))
    return True


def oracle(case, impl):
    kind = case[2]
    out = []
    if "PANIC" in impl:
        m = re.search(r"PANIC (.*)", impl)
        out.append("panic on the receive path: " + (m.group(1)[:300] if m else ""))
    if "HANG" in impl:
        out.append("the decoder makes no progress (hang)")
    if kind in ("udp", "tcp"):
        i = re.search(r"probes=(\d+)_answered=(\d+)_missed=(\S+)", impl)
        if not i:
            out.append("no observation from the listener run")
        elif i.group(1) != i.group(2):
            out.append("%s listener: valid OPTIONS probes %s were not answered after hostile traffic (%s of %s answered)" % (kind.upper(), i.group(3), i.group(2), i.group(1)))
    if kind == "ep":
        want = len(re.findall(r"\d+:options", case[5]))
        got = len(re.findall(r"W:SIP/2\.0_200\S*\|cseq=1_OPTIONS", impl))
        if got != want:
            out.append("%d of %d OPTIONS probes were answered with 200 after hostile messages" % (got, want))
    return out


def nontrivial(case, impl):
    kind = case[2]
    if kind == "dg":
        return case[3] if not case[0].startswith("dg-valid") and impl != "STUN" else None
    if kind == "st":
        return case[3]
    return case[0]


def distribution(cases, impl):
    import collections
    c = collections.Counter()
    for x in cases:
        lab = x[0].split("-")[1] if x[2] in ("dg", "st") and "-" in x[0] else ""
        c[x[2] + (":" + lab if lab else "")] += 1
    for x in cases:
        if x[2] == "dg":
            o = impl.get(x[0], "?") if isinstance(impl, dict) else "?"
            c["dg-outcome:" + o.split(":")[0].split("\t")[0]] += 1
    return dict(c)


def shrink_candidates(case):
    kind = case[2]
    out = []
    if kind in ("udp", "tcp"):
        items = case[3].split(",")
        # drop one hostile packet (with the probe / reconnect that follows it)
        idx = [i for i, a in enumerate(items) if a.startswith("S:")]
        for i in idx:
            j = i + 1
            while j < len(items) and not items[j].startswith("S:"):
                j += 1
            rest = items[:i] + items[j:]
            if not any(a == "P" for a in rest):
                rest.append("P")
            out.append([case[0], case[1], kind, ",".join(rest)])
    elif kind == "ep":
        steps = case[5].split(",")
        for i, s in enumerate(steps):
            if ":raw:" in s:
                out.append(case[:5] + [",".join(steps[:i] + steps[i + 1:])] + case[6:])
    elif kind in ("dg", "hdr"):
        b = bytes.fromhex(case[3])
        n = len(b)
        for a, z in ((0, n // 2), (n // 2, n), (n // 4, n // 2), (n // 2, 3 * n // 4)):
            if z > a and n > 8:
                out.append([case[0], case[1], kind, (b[:a] + b[z:]).hex()])
    return out
