"""C16 -- no state is left behind once activity stops; tables are bounded by live objects."""
import collections
import importlib
import re

ID = "C16"
COQ_PROOF_TARGETS = ["Props/C16.vo"]
COQ_MODEL_TARGETS = ["Extract/ExC16.vo"]
HARNESS_TIMEOUT = 3000
CLAIM_TEXT = ("Theorems (coq/Props/C16.v, no axioms) over the ownership model shared by the endpoint's tables (entry <-> owning object, "
              "held by the application or by a background task with a deadline): in every reachable state there is one entry per key and "
              "per live object and no task entry past its deadline (C16_accounting); the table size equals live objects plus tasks inside "
              "their timers (C16_bounded); orphan responses, unmatched lookups and retransmissions never insert, only a request with a "
              "new key does, one entry per operation (C16_noise_no_growth, C16_retransmission_no_growth, C16_only_new_requests_grow); "
              "dropping an object removes its entry at once (C16_drop_removes); with every object dropped and the clock past every "
              "deadline the table is empty (C16_quiescent_empty); the longest deadline is 64*T1 = 32 s from the regenerated constants. "
              "Correspondence: timed scripts of unwanted / held / dropped / retransmitted requests, orphan responses, unmatched CANCELs "
              "and ACKs against the real transaction table (size at probe instants = model size, lifetimes 64*T1 / until ACK / until "
              "drop); the UA scenarios of C12, C13 and C17 with the application dropping everything at a random step, then 70 s of "
              "silence: transaction, connection, dialog, backlog and pending-cancel tables must all be empty; floods of 5 vs 200 stray "
              "messages must leave identical tables.")
CLAIM_NOTE = ("Trusted: Coq kernel; the ownership model Model/C16.v is generic -- which operation of the code corresponds to Create / Detach / "
              "Drop and with which deadline is fixed by tools/props/c16.py and validated by the probe comparison; STUN transactions are "
              "covered by C20's client cases (pending = 0 after every call), connections by C15's table probes. Known finding F16a "
              "(requests parked behind a CSeq gap) concerns entries that leave only with the dialog.")
TRUSTED = [
    "Coq 8.16.1 kernel; no axioms",
    "hand-written ownership model coq/Model/C16.v; mapping from scenario steps to ownership operations in tools/props/c16.py",
    "extraction (ExtrOcamlBasic only) + ocaml/util.ml + ocaml/c16_driver.ml",
    "Rust harness harness/src/c16.rs + ua.rs (hook H3: read-only table size accessors; paused clock)",
]
ASSUMPTIONS = [
    "aborting the harness tasks that own Session / Early / Initiator / Acceptor objects drops those objects (tokio task semantics)",
]
RULE = ("tsx scripts: 3..14 timed events over {unwanted request (8 methods), held request, drop, retransmission, orphan response, unmatched "
        "CANCEL, ACK} with probes away from timer edges; flood pairs (5 vs 200 stray messages); UA scenarios from the generators of C12 / "
        "C13 / C17 with an 'application drops everything' step inserted at a random position, then quiescence")
PARTIAL = ["the per-table instantiation (which code path is Create / Detach / Drop, and its deadline) is validated by differential runs, not derived from the source"]

T64 = 32000
METHS = "obnmrx"


def _tsx_script(rng, n_events):
    """timed script + the ownership operations it stands for"""
    t = 0
    script, ops = [], []
    rid = 0
    live = {}          # rid -> (kind, method, t0)
    held = []
    handle = 0
    expiry = []        # (until) of detached entries, to place probes away from edges
    for _ in range(n_events):
        t += rng.choice([10, 50, 200, 700, 1500, 4000, 9000, 20000])
        ev = rng.random()
        if ev < 0.3:
            rid += 1; handle += 1
            m = rng.choice(METHS + "i")
            script.append("%d:req:%s:q%d" % (t, m, rid))
            ops.append("A:%d" % t); ops.append("C:%d:%d" % (rid, handle)); ops.append("D:%d:%d" % (handle, t + T64))
            live["q%d" % rid] = ("req", m, t, rid, handle)
            expiry.append(t + T64)
        elif ev < 0.45:
            rid += 1; handle += 1
            m = rng.choice(METHS + "i")
            script.append("%d:hold:%s:q%d" % (t, m, rid))
            ops.append("A:%d" % t); ops.append("C:%d:%d" % (rid, handle))
            held.append(("q%d" % rid, handle))
            live["q%d" % rid] = ("hold", m, t, rid, handle)
        elif ev < 0.55 and held:
            r, h = held.pop(rng.randrange(len(held)))
            script.append("%d:drop:%s" % (t, r))
            ops.append("A:%d" % t); ops.append("X:%d" % h)
            live.pop(r, None)
        elif ev < 0.7:
            rid += 1
            script.append("%d:resp:%d:q%d" % (t, rng.choice([100, 180, 200, 404, 487]), rid))
            ops.append("A:%d" % t); ops.append("N:%d" % rid)
        elif ev < 0.8:
            rid += 1; handle += 1
            script.append("%d:cancel:q%d" % (t, rid))
            ops.append("A:%d" % t); ops.append("C:%d:%d" % (rid, handle)); ops.append("D:%d:%d" % (handle, t + T64))
            expiry.append(t + T64)
        elif ev < 0.9 and live:
            r = rng.choice(sorted(live))
            kind, m, t0, k, h = live[r]
            if kind == "hold" or t < t0 + T64 - 200:
                script.append("%d:retx:%s" % (t, r))
                ops.append("A:%d" % t); ops.append("C:%d:%d" % (k, 900000 + k))      # same key: must not insert
        else:
            # ACK for a rejected INVITE that is still retransmitting: ends its transaction at once
            cands = [r for r, v in live.items() if v[0] == "req" and v[1] == "i" and t < v[2] + T64 - 200]
            if cands:
                r = rng.choice(cands)
                kind, m, t0, k, h = live.pop(r)
                script.append("%d:ack:%s" % (t, r))
                ops.append("A:%d" % t); ops.append("F:%d" % k)
        # probe, kept away from every deadline
        pt = t + 120
        if all(abs(pt - e) > 150 for e in expiry):
            script.append("%d:probe" % pt)
            ops.append("A:%d" % pt); ops.append("P:%d" % pt)
            t = pt
    # quiescence: drop what is held, wait out the longest timer
    for r, h in held:
        t += 10
        script.append("%d:drop:%s" % (t, r)); ops.append("A:%d" % t); ops.append("X:%d" % h)
    t += T64 + 500
    script.append("%d:probe" % t); ops.append("A:%d" % t); ops.append("P:%d" % t)
    return ",".join(script), ",".join(ops)


def _flood(kind, n):
    script, ops = [], []
    t = 0
    for i in range(n):
        t += 3
        if kind == "resp":
            script.append("%d:resp:200:f%d" % (t, i)); ops += ["A:%d" % t, "N:%d" % (i + 1)]
        elif kind == "retx":
            if i == 0:
                script.append("%d:hold:o:base" % t); ops += ["A:%d" % t, "C:1:1"]
            else:
                script.append("%d:retx:base" % t); ops += ["A:%d" % t, "C:1:%d" % (i + 5)]
        elif kind == "ackstray":
            script.append("%d:ack:z%d" % (t, i)); ops += ["A:%d" % t, "N:%d" % (i + 1)]
    t += 200
    script.append("%d:probe" % t); ops += ["A:%d" % t, "P:%d" % t]
    if kind == "retx":
        t += 10
        script.append("%d:drop:base" % t); ops += ["A:%d" % t, "X:1"]
    t += 70000
    script.append("%d:probe" % t); ops += ["A:%d" % t, "P:%d" % t]
    return ",".join(script), ",".join(ops)


_OPS = {}


def gen_cases(rng, tier):
    cases = []
    for i in range(120 if tier == "quick" else 3000):
        script, ops = _tsx_script(rng, rng.randrange(3, 15))
        cid = "t%d" % i
        _OPS[cid] = ops
        cases.append([cid, "c16", "tsx", script, ops])
    for kind in ("resp", "retx", "ackstray"):
        for n in (5, 200):
            script, ops = _flood(kind, n)
            cid = "f-%s-%d" % (kind, n)
            cases.append([cid, "c16", "tsx", script, ops])
    for n in (3, 40):
        cases.append(["gap-%d" % n, "c16", "ua", "uas", "quiesce", _gap_flood(n), "1"])
    # one request overtakes its predecessor, the gap is filled at once, then the peer goes on in order: nothing is missing in front of
    # anything, so nothing may stay parked however long the dialog goes on
    for n in (4, 30):
        cases.append(["fill-%d" % n, "c16", "ua", "uas", "quiesce", _gap_flood(n, order=[1, 0] + list(range(2, n)), base=315), "1"])
    cases.append(["fill-9", "c16", "ua", "uas", "quiesce", _gap_flood(9, order=[2, 1, 0, 3, 5, 4, 6, 7, 8], base=315), "1"])
    # STUN client transactions: every way a call can end (response, timeout, transport error, abandoned by the caller)
    k = 0
    for resp in ("-", "100", "1700", "40000"):
        for mode in ("-", "senderr:0", "senderr:3", "abandon:1", "abandon:3000", "abandon:62000"):
            cases.append(["stun%d" % k, "c16", "stun", "0", resp, "-", mode]); k += 1
    # UA scenarios of the neighbouring properties, with everything dropped at a random step and quiescence at the end
    for mod, take in (("c12", 60), ("c13", 60), ("c17", 40)):
        P = importlib.import_module("props." + mod)
        src = [c for c in P.gen_cases(rng.__class__(rng.randrange(1 << 30)), "quick") if len(c) > 4 and c[2] in ("uas", "uac")]
        rng.shuffle(src)
        if mod == "c12":
            # always among them: a CANCEL (or BYE) that crosses the final response - it arrives while accept / reject waits for the ACK
            crossing = [c for c in src if len(c) > 7 and c[6] == "race" and "cancel" in c[7].split(",") and any(x == "accept" or x.startswith("reject") for x in c[7].split(","))
                        and c[7].split(",").index("cancel") > min(i for i, x in enumerate(c[7].split(",")) if x == "accept" or x.startswith("reject"))]
            src = crossing[:16] + [c for c in src if c not in crossing[:16]]
        n = take if tier == "quick" else take * 8
        for j, c in enumerate(src[:n]):
            steps = [s for s in c[4].split(",") if s]
            variant = j % 3
            if variant == 1 and len(steps) > 1:
                k = rng.randrange(1, len(steps))
                tprev = int(steps[k - 1].split(":")[0])
                steps.insert(k, "%d:abortall" % (tprev + 1))
            elif variant == 2:
                tl = int(steps[-1].split(":")[0]) if steps else 0
                steps.append("%d:abortall" % (tl + 5))
            setup = (c[3] + ";" if c[3] and c[3] != "-" else "") + "quiesce"
            cases.append(["u-%s-%d" % (mod, j), "c16", "ua", c[2], setup, ",".join(steps), c[5] if len(c) > 5 and c[5].isdigit() else "1"])
    # connection-oriented transports: whatever happened on the connection (frames, peer close or garbage while handles are
    # alive, selections), once every handle is dropped and 70 s have passed no connection entry is left
    P15 = importlib.import_module("props.c15")
    r15 = rng.__class__(rng.randrange(1 << 30))
    for j in range(40 if tier == "quick" else 600):
        incoming = r15.random() < 0.3
        g = P15.gen_history(r15, incoming)
        tail = ["drop,drop,drop,drop,drop,drop,drop,drop,drop,drop", "adv:70000"]
        cases.append(["conn%d" % j, "c16", "conn", "in" if incoming else "out", ";".join(g + tail)])
    for j, g in enumerate(("frame,close", "close", "clone,frame,close;adv:100", "garbage", "frame,garbage;adv:5", "frame;adv:31000;close", "select,close", "frame,frame,close;select")):
        cases.append(["connx%d" % j, "c16", "conn", "out", g + ";drop,drop,drop,drop;adv:70000"])
    # an outgoing connection whose socket reports another peer address than the one that was dialled (a wildcard target, a factory that goes
    # through a fixed proxy), and connections accepted long after the listener started: no entry is left either
    for j, g in enumerate(("frame", "frame;adv:100;frame", "clone,frame;adv:31000;frame", "adv:5", "frame,close", "select;frame")):
        cases.append(["conna%d" % j, "c16", "conn", "outalias", g + ";drop,drop,drop,drop;adv:70000"])
    for j, g in enumerate(("frame", "adv:100;frame;adv:20000;frame", "adv:5")):
        cases.append(["connl%d" % j, "c16", "conn", "in@40000", g + ";adv:70000"])
    # client transactions whose final response is replayed by the peer (lost ACKs, or a peer that keeps sending it): the entry is gone
    # when the transaction's own timer has run out (timer D / K counted once from the first final), replays do not hold it
    P05 = importlib.import_module("props.c05")
    j = 0
    for kind, code, win in (("inv", 486, 32000), ("inv", 603, 32000), ("ni", 200, 5000), ("ni", 404, 5000)):
        for t in (1, 700):
            for gap in (win // 2, win - 1000):
                arrs = [(t, code, "a")] + [(t + k * gap, code, "a") for k in range(1, 5)]
                c = P05._case("cli%d" % j, kind, 0, arrs)
                te = t + win
                c[7] = ",".join(str(x) for x in (te + 1, te + 2 * gap + 1))
                cases.append([c[0], "c16", "cli"] + c[2:]); j += 1
    # usages registered (free function register_usage) for dialogs that do not exist any more / never did: no entry may appear
    for j, (setup, evs) in enumerate((("C:1", "K:1"), ("C:1", "K:10"), ("S:7:1", "K:4,D:0:0,K:4"), ("C:1,S:3:2", "K:2,U:0,K:2"))):
        cases.append(["stale%d" % j, "c16", "stale", setup, evs])
    # server transactions whose peer never answers the answer: INVITE failures without ACK, non-INVITE finals, over unreliable and
    # reliable transports, with and without retransmissions / legacy branches: gone after 64*T1
    P06 = importlib.import_module("props.c06")
    j = 0
    for kind, code in (("inv", 486), ("inv", 603), ("ni", 200), ("ni", 404)):
        for rel in (0, 1):
            for t0 in (0, 137):
                for br in ("", "legacy"):
                    for evs in ([], [(t0 + 700, "R")] if rel == 0 else []):
                        c = P06._case("srv%d" % j, kind, rel, code, t0, evs, branch=br)
                        cases.append([c[0], "c16", "srv"] + c[2:]); j += 1
    # dialog-creating responses the UAC cannot use (no Contact): whatever was registered on the way must be gone again
    P13 = importlib.import_module("props.c13")
    for j, hist in enumerate((["180:a", "486:a"], ["183:a", "180:b", "404:-"], ["200:a"], ["180:a", "200:a"], ["180:a"], ["199:c", "603:c"])):
        c = P13._case("nc%d" % j, hist, rng, nocontact=True)
        steps = [s for s in c[4].split(",") if s]
        tl = int(steps[-1].split(":")[0])
        steps.append("%d:abortall" % (tl + 5))
        cases.append(["u-nocontact-%d" % j, "c16", "ua", "uac", c[3] + ";quiesce", ",".join(steps), "1"])
    return cases


def _gap_flood(n, order=None, base=320):
    """an established dialog, then n in-dialog requests that all skip one CSeq number (peer never sends it); with base=315 (the number
    after the INVITE's) and an order, the requests leave no gap in the end"""
    steps = ["0:inv", "100:accept", "200:ack"]
    t = 1000
    for i in (order if order is not None else range(n)):
        raw = ("INFO sip:me@10.0.0.1 SIP/2.0\r\nVia: SIP/2.0/UDP 10.9.9.9:5060;branch=z9hG4bKgap%d\r\nFrom: <sip:peer@example.org>;tag=ptag\r\n"
               "To: <sip:me@example.org>;tag=@@TAG@@\r\nCall-ID: ua-call\r\nCSeq: %d INFO\r\nMax-Forwards: 70\r\nContent-Length: 0\r\n\r\n" % (i, base + i)).encode()
        steps.append("%d:raw:%s" % (t, raw.hex())); t += 20
    steps.append("%d:wait" % (t + 40000))
    return ",".join(steps)


def model_case(case, impl):
    if case[2] == "conn":
        return [case[0], "c16", "quiesce"]
    if case[2] == "stun":
        return [case[0], "c16", "stun"]
    if case[2] == "tsx":
        return [case[0], "c16", "ops", case[4]]
    return [case[0], "c16", "quiesce"]


def _probes(s):
    return re.findall(r"P@(\d+):tsx(\d+)", s)


def normalize_impl(case, s):
    s = s.split("\tPANIC")[0]
    if case[2] == "stun":
        m = re.search(r"pending=(\d+)/(\d+)", s)
        return "pending=%s/%s" % m.groups() if m else "pending=?"
    if case[2] == "tsx":
        return " ".join("P@%s:tsx%s" % p for p in _probes(s))
    if case[2] == "srv":
        m = re.search(r"tsx=(\d+)", s)
        return "quiesced=tsx%s/tp0/dlg0/backlog0/cancel0" % (m.group(1) if m else "?")
    if case[2] == "cli":
        te = int(case[5].split(":")[0]) + (32000 if case[3] == "inv" else 5000)
        probes = [(t, n) for t, n in re.findall(r"N@(\d+):(\d+)", s) if int(t) > te]
        return "quiesced=tsx%s/tp0/dlg0/backlog0/cancel0" % (max([int(n) for _, n in probes]) if probes else "?")
    if case[2] == "stale":
        m = re.search(r"B=(\d+)/(\d+)", s)
        nd = len(case[3].split(","))
        return "quiesced=tsx0/tp0/dlg%d/backlog0/cancel0" % ((int(m.group(1)) - nd) if m else -1)
    if case[2] == "conn":
        # the model's quiescent state: every table empty; the connection table is the one observed here
        last = [o for o in s.split(";") if o][-1:] or [""]
        f = dict(x.split("=", 1) for x in last[0].split() if "=" in x)
        return "quiesced=tsx0/tp%s/dlg0/backlog0/cancel0" % f.get("m", "?")
    m = re.search(r"quiesced=\S+", s)
    return m.group(0) if m else "quiesced=?"


def oracle(case, impl):
    out = []
    if "PANIC" in impl:
        return ["panic: " + impl[-300:]]
    if case[2] == "stun":
        m = re.search(r"pending=(\d+)/(\d+)", impl)
        if not m:
            return ["no observation: " + impl[:200]]
        if m.group(1) != "0" or m.group(2) != "0":
            out.append("STUN transaction entry outlives the call (%s): pending=%s after the call returned, %s later" % (case[6], m.group(1), m.group(2)))
        return out
    if case[2] == "cli":
        probes = re.findall(r"N@(\d+):(\d+)", impl)
        if not probes:
            return ["no probe output: " + impl[:200]]
        te = int(case[5].split(":")[0]) + (32000 if case[3] == "inv" else 5000)
        for t, n in probes:
            if int(t) > te and n != "0":
                out.append("client transaction (%s, final response at %s ms, replayed): %s table entr%s at %s ms, after its timer had run out" % (
                    "INVITE" if case[3] == "inv" else "non-INVITE", case[5].split(":")[0], n, "y" if n == "1" else "ies", t))
                break
        return out
    if case[2] == "stale":
        m = re.search(r"B=(\d+)/(\d+)", impl)
        if not m:
            return ["no observation: " + impl[:200]]
        nd = len(case[3].split(","))
        if int(m.group(1)) != nd or "registered:" in impl:
            out.append("register_usage for dialogs that do not exist left %d dialog entr%s behind (%s live dialog object(s)): %s" % (
                int(m.group(1)) - nd, "y" if int(m.group(1)) - nd == 1 else "ies", nd, impl[:120]))
        return out
    if case[2] == "srv":
        m = re.search(r"tsx=(\d+)", impl)
        if not m:
            return ["no observation: " + impl[:200]]
        if m.group(1) != "0":
            out.append("%s server transaction answered with %s over %s transport whose peer never reacted: %s transaction entr%s left %s ms later (64*T1 = 32000)" % (
                "INVITE" if case[3] == "inv" else "non-INVITE", case[5], "a reliable" if case[4] == "1" else "an unreliable", m.group(1), "y" if m.group(1) == "1" else "ies",
                int(case[8]) - int(case[6])))
        return out
    if case[2] == "conn":
        obs = [o for o in impl.split(";") if o]
        if not obs:
            return ["no observation"]
        f = dict(x.split("=", 1) for x in obs[-1].split() if "=" in x)
        if f.get("m") != "0":
            out.append("connection entry left behind after every handle was dropped and 70 s passed: %s registered connection(s) (history %s)" % (f.get("m"), case[4]))
        return out
    if case[2] == "tsx":
        full = re.findall(r"P@(\d+):tsx(\d+)/tp(\d+)/dlg(\d+)/backlog(\d+)/cancel(\d+)", impl)
        if not full:
            return ["no probe output"]
        last = full[-1]
        if any(int(x) != 0 for x in last[1:]):
            out.append("tables are not empty at quiescence (everything dropped, %s ms): tsx=%s tp=%s dlg=%s backlog=%s cancel=%s" % last)
        if case[0].startswith("f-"):
            # a flood of stray messages must not grow any table: the 5- and the 200-message run see the same sizes
            first = full[0]
            bound = 1 if "retx" in case[0] else 0
            if int(first[1]) > bound:
                out.append("flood %s: transaction table holds %s entries after the flood (at most %d is justified by live objects)" % (case[0], first[1], bound))
    else:
        m = re.search(r"quiesced=tsx(\d+)/tp(\d+)/dlg(\d+)/backlog(\d+)/cancel(\d+)", impl)
        if not m:
            return ["no quiescence observation: " + impl[-200:]]
        if any(int(x) != 0 for x in m.groups()):
            out.append("state left behind after every application object was dropped and 70 s passed: tsx=%s tp=%s dlg=%s backlog=%s cancel=%s" % m.groups())
        if case[0].startswith("fill-"):
            b = re.search(r"tables=tsx(\d+)/tp\d+/dlg\d+/backlog(\d+)", impl)
            if b and int(b.group(2)) > 0:
                out.append("%s in-dialog requests arrived with one overtaking its predecessor and the gap filled at once; 40 s after the last of them %s are still parked "
                           "(transaction entries=%s) although no number is missing in front of them" % (case[0].split("-")[1], b.group(2), b.group(1)))
        if case[0].startswith("gap-"):
            b = re.search(r"tables=tsx(\d+)/tp\d+/dlg\d+/backlog(\d+)", impl)
            if b and int(b.group(2)) > 0:
                out.append("backlog-grows: %s requests behind a CSeq gap the peer never fills are held (backlog=%s, transaction entries=%s) 40 s after the last of them; "
                           "the session is the only live object" % (case[0].split("-")[1], b.group(2), b.group(1)))
    return out


def known(case, impl, violation, findings):
    for f in findings:
        if f["id"] == "F16a" and violation.startswith("backlog-grows"):
            return "F16a"
    return None


def nontrivial(case, impl):
    if case[2] == "stun":
        return "|".join(case[3:])
    if case[2] == "tsx":
        return case[3]
    if case[2] == "conn":
        return case[3] + case[4]
    if case[2] in ("srv", "stale", "cli"):
        return "|".join(case[3:])
    return case[5]


def distribution(cases, impl):
    c = collections.Counter()
    for x in cases:
        c[x[2]] += 1
        if x[2] == "tsx":
            for it in x[3].split(","):
                c["tsx:" + it.split(":")[1]] += 1
        elif x[2] in ("conn", "srv", "stale", "cli"):
            pass
        elif x[2] == "ua":
            c["ua:" + x[0].split("-")[1]] += 1
            if "abortall" in x[5]:
                c["ua:early-drop"] += 1
        else:
            c["stun:" + x[6].split(":")[0]] += 1
    return dict(c)


def shrink_candidates(case):
    out = []
    if case[2] == "ua":
        steps = case[5].split(",")
        for i in range(len(steps)):
            if len(steps) > 1:
                out.append(case[:5] + [",".join(steps[:i] + steps[i + 1:])] + case[6:])
    return out
