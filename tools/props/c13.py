"""C13 -- UAC INVITE: responses map deterministically to early dialogs, sessions, failure."""
import itertools
import re

ID = "C13"
COQ_PROOF_TARGETS = ["Props/C13.vo"]
COQ_MODEL_TARGETS = ["Extract/ExC13.vo"]
HARNESS_TIMEOUT = 3000
CLAIM_TEXT = ("Theorems (coq/Props/C13.v, no axioms) over the model of Initiator::receive: the full case table (100 -> provisional; 101-199 with a "
              "new To-tag -> new early dialog, with a known one -> forwarded to it; 2xx -> session, or establishment of the early dialog with "
              "that tag; 3xx-6xx with or without To-tag -> failure and termination of every listening early dialog), no response can panic "
              "the initiator, exactly one recipient per response, never two dialogs for one To-tag (so a retransmitted 2xx or a late 18x "
              "creates nothing), and the set of To-tags owning a dialog is independent of arrival order. Correspondence: every history up "
              "to length 4 (5 in thorough) over {100, 180/183 x 2 tags, 200 x 2 tags, 486 with/without tag} plus seeded longer ones with "
              "duplicates, through the real Initiator / Early / Session; the oracle also checks the dialog identifiers of every session "
              "(Call-ID, tags, remote target = the response's Contact, route set = reversed Record-Route) and completion at first 2xx + 64*T1.")
CLAIM_NOTE = ("Trusted: Coq kernel; hand-written model Model/C13.v validated by differential runs; the application keeps every Early object alive "
              "until it terminates or becomes a session (as the harness does); responses above 100 with a To-tag carry a Contact (without it "
              "dialog creation returns a header error to the caller, which is exercised for absence of panics only).")
TRUSTED = [
    "Coq 8.16.1 kernel; no axioms",
    "hand-written model coq/Model/C13.v of invite/initiator.rs, validated by the correspondence run",
    "extraction (ExtrOcamlBasic only) + ocaml/util.ml + ocaml/c13_driver.ml",
    "Rust harness harness/src/ua.rs (Initiator / Early / Session through the public API, mock transport, paused clock)",
]
ASSUMPTIONS = [
    "responses of one history are injected one at a time, each processed completely before the next (the transaction delivers them in order)",
]
RULE = ("all histories of length <= 4 (quick) / <= 5 (thorough) over a 9-symbol alphabet (100; 180 and 183 with To-tags a, b; 200 with a, b; 486 "
        "with tag a and without tag) - exhaustive for that space - plus seeded histories of length <= 9 with duplicates and a third tag, "
        "with and without Record-Route / Supported / Session-Expires / RSeq; non-trivial = some response above 100 arrives; distinct = "
        "distinct history")
PARTIAL = []

ALPHA = ["100:-", "180:a", "183:a", "180:b", "183:b", "200:a", "200:b", "486:a", "486:-"]


def hx(s):
    return s.encode().hex()


def extra_for(code, tag, rng):
    if code <= 100:
        return ""
    e = "Contact: <sip:peer-%s@10.9.9.%d:5070;transport=udp>\r\n" % (tag, 9)
    r = rng.random()
    if r < 0.3:
        e += "Record-Route: <sip:p1.example.org;lr>, <sip:p2.example.org;lr>\r\n"
    elif r < 0.5:
        e += "Record-Route: <sip:p1.example.org;lr>\r\nRecord-Route: <sip:p2.example.org;lr>\r\nRecord-Route: <sip:p3.example.org;lr>\r\n"
    if 101 <= code <= 199 and rng.random() < 0.3:
        # 100rel may be any of several required extensions, in one Require line or in a line of its own
        req = rng.choice(["Require: 100rel\r\n", "Require: 100rel\r\n", "Require: precondition, 100rel\r\n", "Require: precondition\r\nRequire: 100rel\r\n",
                          "Require: 100rel, precondition\r\n", "Require: a,b , 100rel\r\n"])
        e += req + "RSeq: %d\r\n" % rng.randrange(1, 1000)
    if 200 <= code <= 299 and rng.random() < 0.4:
        e += "Supported: timer\r\nSession-Expires: 3600;refresher=uas\r\n"
    return e


def _case(cid, hist, rng, nocontact=False):
    acts = ["0:invite"]
    t = 1000
    for h in hist:
        code, tag = h.rstrip("!").split(":")
        extra = "" if (nocontact or h.endswith("!")) else extra_for(int(code), tag, rng)
        acts.append("%d:resp:%s:%s:%s" % (t, code, tag, hx(extra)))
        t += 1000
    acts.append("%d:wait" % (t + 40000))
    return [cid, "c13", "uac", "se=1800", ",".join(acts), "1", ",".join(hist)]


def gen_cases(rng, tier):
    cases = []
    n = 0
    maxlen = 4 if tier == "quick" else 5
    for L in range(1, maxlen + 1):
        for hist in itertools.product(ALPHA, repeat=L):
            # a transaction delivers nothing after a final non-2xx, and only 2xx after the first 2xx (C07)
            ok = True
            state = "p"
            for h in hist:
                c = int(h.split(":")[0])
                if state == "f":
                    ok = False; break
                if state == "s" and not (200 <= c < 300):
                    ok = False; break
                if c >= 300:
                    state = "f"
                elif c >= 200:
                    state = "s"
            if not ok:
                continue
            if tier == "quick" and L == 4 and (n % 3):
                n += 1
                continue
            cases.append(_case("h%d" % n, list(hist), rng)); n += 1
    for i in range(60 if tier == "quick" else 1500):
        L = rng.randrange(3, 10)
        hist = []
        state = "p"
        for _ in range(L):
            if state == "p":
                h = rng.choice(["100:-", "180:a", "183:b", "180:c", "183:a", "180:b", "199:c", "200:a", "200:b", "200:c", "404:-", "486:a", "603:b"])
            else:
                h = rng.choice(["200:a", "200:b", "200:c", "202:a"])
            c = int(h.split(":")[0])
            hist.append(h)
            if c >= 300:
                break
            if c >= 200:
                state = "s"
        cases.append(_case("r%d" % i, hist, rng))
        if i == 0:
            # a provisional response overtaken by its own fork's 2xx (UDP reordering): its To-tag already owns a session, it is ignored
            for j, h2 in enumerate((["200:a", "180:a"], ["100:-", "200:a", "183:a", "200:a", "200:b"], ["200:a", "180:a", "180:a", "200:b"], ["180:b", "200:a", "183:a", "200:b"])):
                cases.append(_case("ov%d" % j, h2, rng))
            # "a 2xx yields an established session" - the same session whether or not a 1xx with its To-tag came first: a 2xx carrying
            # Session-Expires starts the session timer (refresh due 10 s before the interval ends) with or without `Supported: timer`
            for k, se_hdr in enumerate(("Require: timer\r\nSession-Expires: 90;refresher=uac\r\n", "Supported: timer\r\nSession-Expires: 90;refresher=uac\r\n",
                                        "Session-Expires: 120;refresher=uac\r\n", "Supported: 100rel\r\nRequire: timer\r\nSession-Expires: 90;refresher=uac\r\n")):
                for hist2 in (["200:a"], ["180:a", "200:a"], ["100:-", "200:a"], ["183:b", "200:a"]):
                    acts = ["0:invite"]
                    t = 1000
                    for h in hist2:
                        code, tag = h.split(":")
                        extra = "" if int(code) <= 100 else "Contact: <sip:peer-%s@10.9.9.9:5070;transport=udp>\r\n" % tag
                        if code == "200":
                            extra += se_hdr
                        acts.append("%d:resp:%s:%s:%s" % (t, code, tag, hx(extra)))
                        t += 1000
                    acts.append("%d:wait" % (t + 200000))
                    cases.append(["st%d-%d" % (k, len(cases)), "c13", "uac", "se=1800", ",".join(acts), "1", ",".join(hist2)])
        if i % 4 == 0:
            # the same history over a reliable (connection) transport: forks, the order of delivery and the 64*T1 the transaction stays
            # after the first 2xx do not depend on the transport
            c = _case("rt%d" % i, hist, rng)
            c[3] += ";tcp"
            cases.append(c)
    for i, hist in enumerate((["180:a"], ["200:a"], ["183:a", "200:a"])):
        cases.append(_case("nc%d" % i, hist, rng, nocontact=True))
    # a 100 may carry a To-tag (RFC 3261 8.2.6.2): it is still a 100 - provisional, no dialog, no effect on the early dialogs
    for i, hist in enumerate((["100:t", "200:a"], ["180:a", "100:t", "200:a"], ["180:a", "100:a", "183:a", "200:a"], ["100:t", "180:a", "100:t", "486:-"],
                              ["183:a", "180:b", "100:b", "200:b", "200:a"], ["100:a"], ["100:t", "100:-", "404:a"])):
        cases.append(_case("tt%d" % i, hist, rng))
    # "a 3xx-6xx is reported as failure": every class of final failure, also without a To-tag (a redirect server or a proxy that adds none)
    for i, hist in enumerate((["302:-"], ["180:a", "302:-"], ["100:-", "300:-"], ["180:a", "183:b", "399:-"], ["180:a", "380:-"], ["183:a", "305:-"], ["180:a", "301:a"],
                              ["180:a", "400:-"], ["180:a", "503:-"], ["180:a", "183:b", "600:-"], ["180:a", "699:-"], ["100:-", "302:b"])):
        cases.append(_case("fc%d" % i, hist, rng))
    # a dialog-creating response the caller cannot use (To-tag but no Contact: reported as an error, nothing is created) must leave no
    # trace: what comes later for that To-tag is classified as if it were the first
    for i, hist in enumerate((["183:a!", "200:a"], ["183:a!", "180:a"], ["183:a!", "180:a", "200:a"], ["180:b", "183:a!", "200:a"], ["100:-", "183:a!", "183:a!", "180:a", "486:-"],
                              ["200:a!", "200:a"], ["183:a!", "200:b", "200:a"], ["180:a", "183:b!", "180:b", "200:b", "200:a"])):
        cases.append(_case("cl%d" % i, hist, rng))
    # an application that reads its early dialog late: 2..9 further responses with the same To-tag queue up behind the first one
    # (the early dialog's channel holds four) and must all arrive, in order, the 2xx last
    for i in range(12 if tier == "quick" else 120):
        k = 2 + i % 8
        hist = ["180:a"] + [rng.choice(["180:a", "183:a", "181:a", "182:a"]) for _ in range(k)] + (["200:a"] if i % 4 != 3 else [])
        c = _case("q%d" % i, hist, rng)
        c[3] = "se=1800;slowearly=%d" % (1000 * (len(hist) + 1))
        cases.append(c)
    return cases


def model_case(case, impl):
    # the model does not see the responses that are reported as unusable (no Contact)
    mc = [case[0], "c13", ",".join(h for h in case[6].split(",") if not h.endswith("!"))]
    # an application that reads late: what is forwarded to an early dialog passes through the channel model (Model/C13q.v)
    return mc + (["slow"] if "slowearly" in case[3] else [])


def _tokens(impl):
    out = []
    for tok in impl.split("\t")[0].split():
        m = re.match(r"(.*)@(\d+)$", tok)
        if m and not m.group(1).startswith("W:") and not m.group(1).startswith("tables"):
            out.append((m.group(1), int(m.group(2))))
    return out


def normalize_impl(case, s):
    """group the API events by the injection instant of each response"""
    if case[0].startswith("nc"):
        return "skip"
    hist = case[6].split(",")
    evs = _tokens(s)
    if "slowearly" in case[3]:
        # the early dialog was read late: its events are attributed, in order, to the responses that carried its To-tag
        idx = {}
        for i, h in enumerate(hist):
            idx.setdefault(h.split(":")[1], []).append(i)
        seen = {}
        ev2 = []
        for n, tt in evs:
            p = n.split(":")
            if p[0] in ("early-prov", "early-session", "early-terminated") and p[1] in idx:
                k = seen.get(p[1], 0) + 1          # the first response of the tag created the dialog
                seen[p[1]] = k
                if k < len(idx[p[1]]) and p[0] != "early-terminated":
                    tt = 1000 * (idx[p[1]][k] + 1)
            ev2.append((n, tt))
        evs = ev2
    res = []
    for i, h in enumerate(hist):
        if h.endswith("!"):
            continue
        t = 1000 * (i + 1)
        mine = [n for n, tt in evs if tt == t]
        toks = []
        for n in mine:
            p = n.split(":")
            if p[0] == "provisional":
                toks.append("provisional:" + p[1])
            elif p[0] == "early":
                toks.append("early:%s:%s" % (p[1], p[2]))
            elif p[0] == "session":
                toks.append("session:" + p[1])
            elif p[0] == "failure":
                toks.append("failure:" + p[1])
            elif p[0] == "early-terminated":
                toks.append("early-terminated:" + p[1])
            elif p[0] == "early-prov":
                toks.append("early-prov:%s:%s" % (p[1], p[2]))
            elif p[0] == "early-session":
                toks.append("early-session:" + p[1])
            elif p[0] in ("initiator-error", "early-error", "session-error"):
                toks.append("ERROR:" + n)
        if any(x.startswith("failure") for x in toks):
            toks = [x for x in toks if x.startswith("failure")] + sorted(x for x in toks if not x.startswith("failure"))
        res.append("+".join(toks) if toks else "-")
    return " ".join(res)


def normalize_model(case, s):
    if case[0].startswith("nc"):
        return "skip"
    return s.strip()


def oracle(case, impl):
    """the property's case table applied to the history, written independently of the model"""
    if "PANIC" in impl:
        return ["panic: " + impl[-300:]]
    if case[0].startswith("nc"):
        return []
    unusable = [i for i, h in enumerate(case[6].split(",")) if h.endswith("!")]
    for i in unusable:
        mine = [n for n, tt in _tokens(impl) if tt == 1000 * (i + 1)]
        if [n for n in mine if not n.startswith("initiator-error")]:
            return ["response %d carries a To-tag but no Contact (no dialog can be created from it) and yet produced %r" % (i, mine)]
    orig = [i for i, h in enumerate(case[6].split(",")) if not h.endswith("!")]
    # the transaction's 64*T1 run from the first 2xx it sees, usable for a dialog or not
    all2xx = [i for i, h in enumerate(case[6].split(",")) if 200 <= int(h.split(":")[0]) <= 299]
    hist = [h.split(":") for h in case[6].split(",") if not h.endswith("!")]
    got = normalize_impl(case, impl).split(" ")
    early = {}          # tag -> 'early' | 'session'
    direct = set()
    first2xx = None
    for i, ((code, tag), g) in enumerate(zip(hist, got)):
        code = int(code)
        if "ERROR" in g:
            return ["response %d (%d %s): error result %s" % (i, code, tag, g)]
        if code <= 100:
            want = "provisional:%d" % code
        elif code >= 300:
            listening = sorted(t for t, st in early.items() if st == "early")
            want = "+".join(["failure:%d" % code] + ["early-terminated:" + t for t in listening])
            early = {t: st for t, st in early.items() if st != "early"}
        elif tag == "-":
            want = "-"
        elif tag in early:
            if early[tag] == "early":
                if code >= 200:
                    want = "early-session:" + tag; early[tag] = "session"
                else:
                    want = "early-prov:%s:%d" % (tag, code)
            else:
                want = "-"
        elif tag in direct:
            want = "-"
        elif code <= 199:
            want = "early:%s:%d" % (tag, code); early[tag] = "early"
        else:
            want = "session:" + tag; direct.add(tag)
        if 200 <= code <= 299 and first2xx is None:
            first2xx = 1000 * (orig[i] + 1)
        if g != want:
            return ["response %d (%d, To-tag %s): recipient %r, the property's case table gives %r" % (i, code, tag, g, want)]
    if case[0].startswith("st"):
        # the session timer of the session made from the 2xx: refresh due (interval - 10) s after the 2xx, on either path to the session
        t2 = 1000 * len(hist)
        se = 120 if "st2-" in case[0] else 90
        due = [t for n, t in _tokens(impl) if n == "refresh-needed:a"]
        if not due or due[0] != t2 + (se - 10) * 1000:
            return ["the 2xx (Session-Expires %d, this side refreshes) arrived at %d ms %s; the session reports a refresh due at %r, expected %d" % (
                se, t2, "after a 1xx with its To-tag" if any(h[1] == "a" and int(h[0]) < 200 for h in hist) else "as the first response with its To-tag",
                due[:1], t2 + (se - 10) * 1000)]
    # a provisional response that requires 100rel is reported with its RSeq (the application has to PRACK it), wherever 100rel stands
    # among the required extensions
    for i, st in enumerate([x for x in case[4].split(",") if ":resp:" in x]):
        a = st.split(":")
        if len(a) >= 5 and 101 <= int(a[2]) <= 199 and a[3] != "-" and a[4]:
            extra = bytes.fromhex(a[4]).decode("utf-8", "replace")
            m = re.search(r"RSeq: (\d+)", extra)
            tags = [t.strip() for l in extra.split("\r\n") if l.lower().startswith("require:") for t in l.split(":", 1)[1].split(",")]
            if m and "100rel" in tags:
                t = int(a[0])
                seen = [n for n, tt in _tokens(impl) if tt == t and (n.startswith("early:%s:" % a[3]) or n.startswith("early-prov:%s:" % a[3]))]
                if seen and not any(n.endswith(":" + m.group(1)) for n in seen):
                    return ["the reliable provisional response %s (To-tag %s, Require %r, RSeq %s) was reported as %r: without its RSeq the application cannot acknowledge it" % (
                        a[2], a[3], tags, m.group(1), seen)]
    # session dialogs: identifiers from that response
    inv = re.search(r"W:INVITE_[^ ]*", impl)
    for m in re.finditer(r"(?:session|early-session):(\w+):cid=([^/]*)/ltag=([^/]*)/ptag=([^/]*)/target=([^/]*)/routes=(\S*?)@\d+", impl):
        tag, cid, ltag, ptag, target, routes = m.groups()
        if ptag != tag:
            return ["session for To-tag %s has peer tag %s" % (tag, ptag)]
        if "peer-%s@" % tag not in target:
            return ["session for To-tag %s has remote target %s, not the Contact of its own response" % (tag, target)]
        # the route set is the Record-Route list of the response that created (or, RFC 3261 13.2.2.4, confirmed) the dialog,
        # reversed - whether the list came as one comma separated line or as several lines
        ok = set()
        for st in [x for x in case[4].split(",") if x]:
            a = st.split(":")
            if len(a) >= 5 and a[1] == "resp" and a[3] == tag and int(a[2]) > 100:
                extra = bytes.fromhex(a[4]).decode("utf-8", "replace") if a[4] else ""
                rr = []
                for line in extra.split("\r\n"):
                    if line.lower().startswith("record-route:"):
                        rr += [x.strip().strip("<>") for x in line.split(":", 1)[1].split(",")]
                ok.add("+".join(reversed(rr)))
        if ok and routes not in ok:
            return ["session route set %r is not the reversed Record-Route of its responses (%r)" % (routes, sorted(ok))]
    fin = [t for n, t in _tokens(impl) if n == "finished"]
    if all2xx:
        first2xx = 1000 * (all2xx[0] + 1)
    if first2xx is not None and "slowearly" in case[3]:
        # the initiator waited for the application to drain the early dialog's channel before it saw the 2xx: the 64*T1 run from then
        slow = int(case[3].split("slowearly=")[1])
        if len(fin) != 1 or not (first2xx + 32000 <= fin[0] <= slow + 32000):
            return ["completion reported at %r, expected once between %d and %d" % (fin, first2xx + 32000, slow + 32000)]
    elif first2xx is not None:
        if fin != [first2xx + 32000]:
            return ["completion reported at %r, expected first 2xx + 64*T1 = %d" % (fin, first2xx + 32000)]
    return []


def nontrivial(case, impl):
    return case[6] if any(int(h.split(":")[0]) > 100 for h in case[6].split(",")) else None
