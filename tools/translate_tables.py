"""Further generated tables; each emit_* is added as the property that needs it is built."""
import os
import re


def blist(b):
    return "[" + "; ".join("x%02x" % c for c in b) + "]"


UNLOCATED = []   # flags whose form was neither recognised nor contradicted in this run (kept from the last successful run)


def flag(w, name, pos, neg, what):
    """a form flag is true when the source shows the form, false when it shows a form that contradicts it; when neither can be
    seen (a rewrite the patterns do not know) the value of the last successful regeneration is kept and the flag is reported:
    the properties using it then rest on the correspondence run for that form"""
    import translate
    if pos and not neg:
        v = True
    elif neg:
        v = False
    else:
        old = translate.old_flag(name)
        if old is None:
            raise RuntimeError("translator: cannot locate " + what)
        UNLOCATED.append((name, what))
        v = old
    w("Definition %s : bool := %s." % (name, "true" if v else "false"))


def emit(w, src, must):
    for _, fn in SECTIONS:
        fn(w, src, must)


def emit_timers(w, src, must):
    t = src("crates/sip-ua/src/invite/timer.rs")
    subs = re.findall(r"saturating_sub\((\d+)\)", t)
    adds = re.findall(r"saturating_add\((\d+)\)", t)
    must(len(subs) >= 1 and len(adds) >= 1 and len(set(subs + adds)) == 1, "session timer margins (saturating_sub / saturating_add with one value) in invite/timer.rs")
    w("(* session-timer safety margin (seconds) and the acceptor's default interval, sip-ua/src/invite/timer.rs *)")
    w("Definition se_margin_s : N := %s." % subs[0])
    m = must(re.search(r"interval_secs: (\d+),", t), "default session interval")
    w("Definition se_default_interval_s : N := %s." % m.group(1))
    r = src("crates/sip-ua/src/register/mod.rs")
    m1 = must(re.search(r"\w+\.max\(Duration::from_secs\((\d+)\)\)", r), "register minimum period")
    fn_body = r[r.index("fn create_reg_interval"):]
    m2 = must(re.search(r"-\s*Duration::from_secs\((\d+)\)", fn_body), "register margin")
    w("(* registration refresh: period = max(lifetime, reg_min_s) - reg_margin_s, sip-ua/src/register/mod.rs *)")
    w("Definition reg_min_s : N := %s." % m1.group(1))
    w("Definition reg_margin_s : N := %s." % m2.group(1))
    w("")


def emit_codes(w, src, must):
    text = src("crates/sip-types/src/code.rs")
    rows = re.findall(r'\[(\d+) => (\w+), "([^"]*)"\];', text)
    must(len(rows) > 40, "status code table in code.rs")
    w("(* status code -> default reason phrase (codes! in sip-types/src/code.rs) *)")
    w("Definition code_reasons : list (N * list byte) :=")
    w("  [" + ";\n   ".join("(%s, %s)" % (c, blist(t.encode())) for (c, _, t) in rows) + "].")
    w("")


def emit_guards(w, src, must):
    """which form two guards of the receive path have in the source (C02): booleans, not `must`,
    so that the unguarded form yields a model whose totality theorem fails instead of a translator error"""
    t = src("crates/sip-core/src/transport/parse.rs")
    body = t[t.index("fn parse_complete_sip"):]
    w("(* parse_complete_sip computes the announced body end with checked_add (sip-core/src/transport/parse.rs) *)")
    unchecked = bool(re.search(r"\b(head_end|body_begin|\w*begin|\w*start)\s*\+\s*\w+(\.0)?\b", re.sub(r"//[^\n]*", "", t)))
    flag(w, "dg_body_end_checked", bool(re.search(r"\w+\s*\.checked_add\(", t)) and not unchecked, unchecked, "the body-end addition of parse_complete_sip")
    l = src("crates/sip-core/src/lib.rs")
    ext = l[l.index("fn extract_from"):]
    ext = ext[:ext.index("\n    }\n") + 1]
    w("(* BaseHeaders::extract_from rejects a message without a usable Via before do_receive indexes via[0] (sip-core/src/lib.rs) *)")
    flag(w, "base_requires_via", bool(re.search(r"if \w+\.is_empty\(\)\s*\{\s*return Err", ext)), "is_empty()" not in ext, "the empty-Via guard of extract_from")
    d = src("crates/sip-core/src/transport/streaming/decode.rs")
    w("(* the stream decoder slices the body with the length its first pass saved, not with a value decoded again from the headers *)")
    redecoded = bool(re.search(r"let \w+ = headers\b[^;]*ContentLength", d)) or bool(re.search(r"let content_len = headers", d))
    saved = bool(re.search(r"let (\w+) = self\.content_len;", d)) and bool(re.search(r"\.slice\(\w+\.\.\w+ \+ \w+\)", d))
    flag(w, "stream_body_len_saved", saved and not redecoded, redecoded, "the body slice of the stream decoder")
    dl = src("crates/sip-ua/src/dialog/layer.rs")
    gt = dl[dl.index("Ordering::Greater =>"):]
    gt = gt[:gt.index("\n                }\n") if "\n                }\n" in gt else len(gt)]
    # two spellings of the guard: `contains_key` + return in front of the insert, or the Entry API inserting only into a vacant slot
    pre_insert = gt[:gt.index("backlog.insert(")] if "backlog.insert(" in gt else ""
    guard_a = bool(re.search(r"if \w+\.backlog\.contains_key\(&\w+\)\s*\{\s*return;\s*\}", pre_insert))
    guard_b = "backlog.insert(" not in gt and bool(re.search(r"\.backlog\.entry\(\w+\)", gt)) and "Vacant" in gt and not re.search(r"Occupied\([^)]*\)\s*=>\s*\{[^}]*insert", gt)
    guard = guard_a or guard_b
    w("(* DialogLayer::receive does not overwrite a parked request with another one carrying the same CSeq (sip-ua/src/dialog/layer.rs) *)")
    flag(w, "dlg_backlog_no_overwrite", guard, (not guard) and "backlog.insert(" in gt and "contains_key" not in pre_insert, "the parked-request guard of DialogLayer::receive")
    w("")


def emit_stun(w, src, must):
    """constants and forms of the STUN codec the model of C20 depends on"""
    lib = src("crates/stun-types/src/lib.rs")
    m = must(re.search(r"const COOKIE: u32 = 0x([0-9A-Fa-f]+);", lib), "STUN magic cookie")
    w("(* crates/stun-types: magic cookie, address attribute lengths, CRC polynomial, fingerprint xor; crates/stun: retry loop *)")
    w("Definition stun_cookie : N := %d." % int(m.group(1), 16))
    addr = src("crates/stun-types/src/attributes/addr.rs")
    v4 = set(re.findall(r"SocketAddr::V4\(_\) => Ok\((\d+)\)", addr))
    v6 = set(re.findall(r"SocketAddr::V6\(_\) => Ok\((\d+)\)", addr))
    must(len(v4) == 1 and len(v6) == 1, "address attribute encode_len (one value per family)")
    w("Definition stun_addr4_len : N := %s." % v4.pop())
    w("Definition stun_addr6_len : N := %s." % v6.pop())
    other = "from_ne_bytes" in addr or "from_le_bytes" in addr
    flag(w, "stun_addr_network_order", len(re.findall(r"from_be_bytes\(", addr)) >= 2 and not other, other, "byte order of the XOR address attributes")
    fp = src("crates/stun-types/src/attributes/fingerprint.rs")
    poly = must(re.search(r"c = 0x([0-9a-f]+) \^ \(c >> 1\)", fp), "CRC polynomial")
    xors = set(re.findall(r"crc32\(data\) \^ 0x([0-9a-f]{8});", fp))
    must(len(xors) == 1, "fingerprint xor constant (same in encode and decode)")
    w("Definition stun_crc_poly : N := %d." % int(poly.group(1), 16))
    w("Definition stun_fp_xor : N := %d." % int(xors.pop(), 16))
    dec = fp[fp.index("fn decode"):fp.index("fn encode")]
    flag(w, "stun_fp_excludes_own_header", bool(re.search(r"\[\.\.\w+\.begin - 4\]", dec)), bool(re.search(r"\[\.\.\w+\.begin\]", dec)), "the range the fingerprint check covers")
    cl = src("crates/stun/src/lib.rs")
    r = must(re.search(r"for _\w* in 0\.\.(\d+)(?:u32|usize)? \{", cl), "STUN retry count")
    d = must(re.search(r"let mut (\w+) = Duration::from_millis\((\d+)\);", cl), "STUN initial timeout")
    must(re.search(r"\b%s \*= 2\b" % re.escape(d.group(1)), cl), "STUN timeout doubling")
    w("Definition stun_attempts : N := %s." % r.group(1))
    w("Definition stun_initial_ms : N := %s." % d.group(2))
    pr = src("crates/stun-types/src/parse.rs")
    flag(w, "stun_trim_only_variable", "trimmed_end" in pr and bool(re.search(r"\bend: \w*end,", pr)), "trimmed_end" not in pr, "trailing-zero trimming of the STUN parser")
    w("")


def emit_sdp(w, src, must):
    """token tables of sdp-types and the form of the matchers the model of C19 depends on"""
    media = src("crates/sdp-types/src/media.rs")
    mt = re.findall(r'"(\w+)" => Ok\(MediaType::(\w+)\)', media)
    pr = re.findall(r'"([\w/]+)" => TransportProtocol::(\w+),', media)
    w("(* crates/sdp-types: media types, transport protocols, SRTP suites, direction keywords -- as the parsers match them *)")
    w("Definition sdp_media_types : list (list byte) := [%s]." % "; ".join(blist(a.encode()) for a, _ in mt))
    w("Definition sdp_protocols : list (list byte) := [%s]." % "; ".join(blist(a.encode()) for a, _ in pr))
    whole = bool(mt) and bool(pr) and 'tag("audio")' not in media and 'tag("RTP/SAVP")' not in media
    # the token handed to the match extends to the next white space (not to the end of some character class)
    def region(a, b):
        i = media.find(a)
        j = media.find(b, i + 1) if i >= 0 else -1
        return media[i:j] if i >= 0 and j > i else ""
    regs = [region("impl MediaType", "impl fmt::Display for MediaType"), region("impl TransportProtocol", "impl fmt::Display for TransportProtocol")]
    whole = whole and all("take_while1(not_whitespace)" in r for r in regs)
    other_class = any(re.search(r"take_while1\((?!not_whitespace\))", r) for r in regs)
    crypto = src("crates/sdp-types/src/attributes/crypto.rs")
    m = must(re.search(r"suite! \{([^}]*)\}", crypto), "SRTP suite list")
    suites = [x.strip() for x in m.group(1).split(",") if x.strip()]
    w("Definition sdp_suites : list (list byte) := [%s]." % "; ".join(blist(a.encode()) for a in suites))
    whole = whole and "map(tag(stringify!($suite))" not in crypto and 'tag("UNENCRYPTED_SRTP")' not in crypto
    prefix = other_class or 'tag("audio")' in media or 'tag("RTP/SAVP")' in media or "map(tag(stringify!($suite))" in crypto or 'tag("UNENCRYPTED_SRTP")' in crypto
    flag(w, "sdp_tokens_matched_whole", whole and not prefix, prefix, "whole-token matching of media types / protocols / suites")
    plain_pow = bool(re.search(r"[^_]pow\(", crypto))
    flag(w, "sdp_lifetime_checked_pow", ".checked_pow(" in crypto and not plain_pow, plain_pow, "the 2^n lifetime computation")
    d = src("crates/sdp-types/src/attributes/direction.rs")
    dn = re.findall(r'Direction::(\w+) => "(\w+)"', d)
    w("Definition sdp_directions : list (list byte) := [%s]." % "; ".join(blist(b.encode()) for _, b in dn))
    sd = src("crates/sdp-types/src/session_description.rs")
    disp = sd[sd.index("impl fmt::Display for MediaDescription"):sd.index("/// The Session Description message")]
    flag(w, "sdp_prints_candidates", "ice_candidates" in disp and "end-of-candidates" in disp, "ice_candidates" not in disp, "candidate lines in Display for MediaDescription")
    sdisp = sd[sd.index("impl fmt::Display for SessionDescription"):sd.index("#[derive(Default)]\nstruct Parser")]
    flag(w, "sdp_prints_session_direction", "direction" in sdisp, "direction" not in sdisp, "session direction in Display for SessionDescription")
    flag(w, "sdp_ice_lite_flag", bool(re.search(r'"ice-lite" => (\{\s*)?self\.ice_lite = true', sd)), '"ice-lite"' not in sd, "the ice-lite flag attribute")
    w("")


def _class_bytes(text, fn_name, must):
    m = must(re.search(r"fn %s\(c: char\) -> bool \{\s*lookup_table!\(c => ([^\n]*)\)\s*\}" % fn_name, text), "character class " + fn_name)
    spec = re.sub(r"/\*.*?\*/", "", m.group(1))
    chars = set()
    if "alpha;" in spec:
        chars |= set(range(65, 91)) | set(range(97, 123))
    if "num;" in spec:
        chars |= set(range(48, 58))
    for lit in re.findall(r"'(\\.|[^'\\])'", spec):
        chars.add(ord(lit[-1]))
    return sorted(chars)


def emit_sip(w, src, must):
    """character classes, method names and escaping forms of sip-types the model of C01 depends on"""
    sipuri = src("crates/sip-types/src/uri/sip.rs")
    params = src("crates/sip-types/src/uri/params.rs")
    parse = src("crates/sip-types/src/parse.rs")
    w("(* crates/sip-types: character classes of the URI parsers (lookup_table!), method names, escaping forms *)")
    for name, text, fn in (("sip_user_class", sipuri, "user"), ("sip_password_class", sipuri, "password"), ("sip_param_class", params, "param_char"),
                           ("sip_header_class", params, "header_char"), ("sip_token_class", parse, "token")):
        w("Definition %s : list byte := %s." % (name, blist(bytes(_class_bytes(text, fn, must)))))
    macros = src("crates/sip-types/src/macros.rs")
    enc = macros[macros.index("macro_rules! encode_set"):]
    enc = enc[:enc.index("macro_rules!", 20)] if "macro_rules!" in enc[20:] else enc
    flag(w, "sip_encode_set_has_percent", bool(re.search(r"\.add\(b'%'\)", enc)), "'%'" not in enc and "0x25" not in enc, "the percent sign in encode_set!")
    method = src("crates/sip-types/src/method.rs")
    names = re.findall(r'^\s*"([A-Z]+)",\s+[A-Z]+;', method, re.M)
    must(len(names) >= 14, "method table")
    w("Definition sip_method_names : list (list byte) := [%s]." % "; ".join(blist(n.encode()) for n in names))
    loose = "tag_no_case" in method or "starts_with" in method or "eq_ignore_ascii_case" in method
    flag(w, "sip_method_exact", bool(re.search(r"\$\(\s*\$print => Self\(Repr::\$ident\),?\s*\)\*", method)) and not loose, loose, "exact matching of method names")
    ft = src("crates/sip-types/src/header/typed/from_to.rs")
    flag(w, "sip_tag_escaped", bool(re.search(r'percent_encode\(\s*&?(self\.)?tag\b', ft)), bool(re.search(r'";tag=\{\}",\s*&?(self\.)?tag\b', ft)), "escaping of the From/To tag")
    na = src("crates/sip-types/src/uri/name_addr.rs")
    flag(w, "sip_display_quoted_escaped", "parse_quoted_string" in na and bool(re.search(r"matches!\(\w+, '\"' \| '\\\\'\)", na)),
         "parse_quoted_string" not in na, "quoting of display names")
    # header_names! table: print string and the spellings Name::from_bytes accepts (in table order)
    hn = src("crates/sip-types/src/header/name.rs")
    rows = re.findall(r'^\s*"([^"]+)",\s+\w+,\s+\[([^\]]+)\],\s+\w+;', hn[hn.index("header_names! {"):], re.M)
    must(len(rows) >= 40, "header name table")
    w("Definition sip_header_names : list (list byte * list (list byte)) := [%s]." % ";\n  ".join(
        "(%s, [%s])" % (blist(pr.encode()), "; ".join(blist(x.encode()) for x in re.findall(r'"([^"]+)"', ps))) for pr, ps in rows))
    ep = src("crates/sip-core/src/endpoint.rs")
    pair = r"\.remove\(&Name::CONTENT_LENGTH\);\s*[\w\s.]*\.insert\(\s*Name::CONTENT_LENGTH,\s*[\w.]*\.len\(\)\.to_string\(\)\s*\);"
    inline = len(re.findall(pair, ep))
    helper = re.search(r"fn (\w+)\([^)]*\)[^{]*\{[^}]*" + pair, ep)
    calls = len(re.findall(r"\b%s\(" % helper.group(1), ep)) - 1 if helper else 0
    keeps = bool(re.search(r"contains\(&Name::CONTENT_LENGTH\)", ep)) or ".remove(&Name::CONTENT_LENGTH)" not in ep
    flag(w, "sip_send_replaces_content_length", (inline >= 2 or calls >= 2) and not keeps, keeps, "Content-Length replacement in send_outgoing_request / _response")
    w("")


def emit_auth(w, src, must):
    """the form of CredentialStore::add_for_realm the model of C18 depends on"""
    a = src("crates/sip-auth/src/lib.rs")
    body = a[a.index("pub fn add_for_realm"):]
    body = body[:body.index("\n    }\n")]
    ins = bool(re.search(r"self\.map\.insert\(\s*realm\.into\(\)\s*,\s*credentials\s*\)", body))
    keep = bool(re.search(r"or_insert|Vacant|contains_key", body))
    w("(* CredentialStore::add_for_realm stores with HashMap::insert: the credentials given last for a realm replace the earlier ones (sip-auth/src/lib.rs) *)")
    ins = ins or bool(re.search(r"\.insert\(\s*\w+(\.into\(\))?\s*,\s*\w+\s*\)", body))
    flag(w, "auth_store_add_replaces", ins and not keep, keep, "CredentialStore::add_for_realm")
    w("")


def emit_ua(w, src, must):
    """forms of the INVITE user agent the channel model of C13 depends on"""
    t = src("crates/sip-ua/src/invite/initiator.rs")
    body = t[t.index("impl Initiator"):]
    body = body[:body.index("enum EarlyEvent")]
    blocks = bool(re.search(r"\.send\(\s*EarlyEvent::Response\(\w+\)\s*\)\s*\.await", body))
    tries = bool(re.search(r"try_send\(\s*EarlyEvent::Response", body))

    ce = body[body.index("fn create_early_dialog"):]
    m = must(re.search(r"let \(\w+, \w+\) = mpsc::channel\((\d+)\);", ce), "early dialog channel capacity")
    w("(* Initiator::receive hands a response to its early dialog with send().await (it waits for a free slot, nothing is dropped); the")
    w("   channel created in create_early_dialog has this many slots (sip-ua/src/invite/initiator.rs) *)")
    flag(w, "early_forward_blocks", blocks and not tries, tries, "Initiator::receive hand-over to the early dialog (send().await or try_send)")
    w("Definition early_channel_capacity : N := %s." % m.group(1))
    w("")


def emit_tsxforms(w, src, must):
    """order of the steps of the client transactions' send (C04 / C07)"""
    before, after = [], []
    for f in ("client", "client_inv"):
        t = src("crates/sip-core/src/transaction/%s.rs" % f)
        m = re.search(r"async fn send\b", t)
        body = t[m.start():] if m else ""
        body = body[:body.index("\n    }\n")] if "\n    }\n" in body else body
        reg = body.find("TsxRegistration::create(")
        snd = body.find("send_outgoing_request(")
        if reg >= 0 and snd >= 0:
            (before if reg < snd else after).append(f)
    w("(* ClientTsx::send and ClientInvTsx::send enter the transaction into the table before the request is handed to the transport *)")
    flag(w, "tsx_client_registers_before_send", len(before) == 2, len(after) > 0, "order of registration and first send in the client transactions")
    w("")


def emit_streamforms(w, src, must):
    """polling order of the receive task of an unreferenced connection (C15)"""
    t = src("crates/sip-core/src/transport/streaming/mod.rs")
    rt = t[t.index("async fn receive_task"):] if "async fn receive_task" in t else ""
    m = re.search(r"ReceiveTaskState::Unused\((\w+), (\w+)\) =>", rt)
    frame = timer = -1
    if m:
        arm = rt[m.end():]
        frame = arm.find("framed.next()")
        tm = re.search(r"_ = (&mut )?%s\b[^=]*=>" % re.escape(m.group(1)), arm)
        timer = tm.start() if tm else -1
    w("(* the receive task of an unreferenced connection polls the inbound frame before the 32 s idle timer (biased select, streaming/mod.rs) *)")
    flag(w, "stream_frame_before_idle_timer", 0 <= frame < timer, 0 <= timer < frame, "polling order of frame and idle timer in receive_task")
    w("")


def emit_cancelforms(w, src, must):
    """how the invite layer finds the INVITE a CANCEL refers to (C12)"""
    t = src("crates/sip-ua/src/invite/mod.rs")
    m = re.search(r"fn handle_cancel\b", t)
    body = t[m.start():] if m else ""
    body = body[:body.index("\n    }\n")] if "\n    }\n" in body else body
    w("(* InviteLayer::handle_cancel looks the pending INVITE up under the CANCEL's transaction-key branch (TsxKey::branch), the form")
    w("   Acceptor::new registers it under *)")
    flag(w, "cancel_lookup_by_tsx_branch", bool(re.search(r"tsx_key\s*\.branch\(\)", body)) and 'get_val("branch")' not in body,
         'get_val("branch")' in body, "the branch InviteLayer::handle_cancel looks the pending INVITE up with")
    w("")


def emit_stunforms(w, src, must):
    """how StunEndpoint::send_request cleans its pending-table entry up (C20 / C16)"""
    t = src("crates/stun/src/lib.rs")
    m = re.search(r"async fn send_request\b", t)
    body = t[m.start():] if m else ""
    nxt = re.search(r"\n    (pub )?(async )?fn ", body[10:])
    body = body[:nxt.start() + 10] if nxt else body
    guard = bool(re.search(r"impl<[^>]*>\s*Drop\s+for\s+\w+", body)) and bool(re.search(r"let _\w* = \w+\(", body))
    explicit = (not guard) and bool(re.search(r"transactions\s*\.lock\(\)\s*\.remove\(|\.forget\(", body))
    w("(* StunEndpoint::send_request removes its entry of the pending table through a scope guard (every way the call can end) *)")
    flag(w, "stun_cleanup_by_guard", guard, explicit, "clean-up of the pending-table entry in StunEndpoint::send_request")
    w("")


def emit_uaforms(w, src, must):
    """orderings the timed models of C12 / C06 take for granted"""
    a = src("crates/sip-ua/src/invite/acceptor.rs")
    m = re.search(r"async fn respond_success\b", a)
    body = a[m.start():] if m else ""
    nxt = re.search(r"\n    (pub )?(async )?fn ", body[10:])
    body = body[:nxt.start() + 10] if nxt else body
    reg = re.search(r"awaited_ack\s*\.lock\(\)\s*=\s*Some\(", body)
    snd = re.search(r"\.respond_success\(", body)
    w("(* Acceptor::respond_success registers the ACK rendezvous (awaited_ack) before it hands the 2xx to the transport *)")
    flag(w, "ack_rendezvous_before_send", bool(reg and snd and reg.start() < snd.start()), bool(reg and snd and reg.start() > snd.start()),
         "order of the ACK rendezvous and the send in Acceptor::respond_success")
    t = src("crates/sip-core/src/transaction/mod.rs") + src("crates/sip-core/src/transaction/registration.rs")
    unb = len(re.findall(r"mpsc::unbounded_channel\(\)", t))
    bnd = bool(re.search(r"mpsc::channel\(", t)) or "try_send" in t
    w("(* the per-transaction message queue (Transactions::get_handler, TsxRegistration::create) is unbounded: nothing a transaction")
    w("   has not picked up yet is ever refused *)")
    flag(w, "tsx_queue_unbounded", unb >= 1 and not bnd, bnd, "the channel between do_receive and a transaction")
    w("")


def translate_repo():
    import translate
    return translate.REPO


def _fn_body(text, pattern):
    """the text of the function whose header matches pattern (up to the next fn at the same or a lower indentation)"""
    m = re.search(pattern, text)
    if not m:
        return ""
    body = text[m.start():]
    nxt = re.search(r"\n {0,4}(pub(\([a-z]+\))? )?(async )?fn ", body[10:])
    return body[:nxt.start() + 10] if nxt else body


def emit_forms8(w, src, must):
    """small decision points the larger models take for granted (Model/Forms8.v)"""
    ep = src("crates/sip-core/src/endpoint.rs")
    b = _fn_body(ep, r"async fn handle_unwanted_request\b")
    pos = bool(re.search(r"request\s*\.\s*line\s*\.\s*method", b))
    neg = bool(re.search(r"tsx_key\s*\.\s*is_invite\(\)", b))
    w("(* Endpoint::handle_unwanted_request chooses the kind of server transaction for its 481 by the request line (the method the")
    w("   constructors assert on), not by the transaction key (which follows the CSeq method) *)")
    flag(w, "unwanted_kind_from_line", pos and not neg, neg, "how handle_unwanted_request chooses the server transaction kind")

    key = src("crates/sip-core/src/transaction/key.rs")
    b = key
    pos = bool(re.search(r"headers\.via\[0\]|headers\.via\.first\(\)|\[\s*\w[^\]]*,\s*\.\.\s*\]\s*=\s*headers\.via", b))
    neg = bool(re.search(r"headers\.via\.last\(\)|\[\s*\.\.\s*,[^\]]*\]\s*=\s*headers\s*\.via|via\.len\(\)\s*-\s*1", b, re.S))
    w("(* TsxKey::from_headers reads branch and sent-by from the top Via (headers.via[0]) *)")
    flag(w, "key_from_top_via", pos and not neg, neg, "which Via TsxKey::from_headers reads")

    si = src("crates/sip-core/src/transaction/server_inv.rs")
    b = _fn_body(si, r"async fn respond_provisional\b")
    sends = len(re.findall(r"send_outgoing_response\(", b))
    neg = bool(re.search(r"try_recv\(|\.receive\(\)|receiver\b|\bloop\b|\bwhile\b", b))
    w("(* ServerInvTsx::respond_provisional is one hand-over to the transport and leaves the transaction's queue alone *)")
    flag(w, "provisional_ignores_queue", sends == 1 and not neg, neg or sends > 1, "what ServerInvTsx::respond_provisional does besides one send")

    sv = src("crates/sip-core/src/transaction/server.rs")
    both = sv + si
    neg = bool(re.search(r"\.parts\s*\.\s*destination\s*=[^=]|\.parts\s*\.\s*transport\s*=[^=]", both))
    pos = bool(re.search(r"send_(outgoing_)?response\(", sv)) and not neg
    w("(* the completed server transactions re-send the stored response as it is (no field of it is assigned in the retransmission loops) *)")
    flag(w, "resend_keeps_destination", pos, neg, "whether the server transactions touch the stored response before re-sending it")

    ly = src("crates/sip-ua/src/dialog/layer.rs")
    if os.path.exists(os.path.join(translate_repo(), "crates/sip-ua/src/dialog/entry.rs")):
        ly += src("crates/sip-ua/src/dialog/entry.rs")
    pos = bool(re.search(r"next_peer_cseq\s*=\s*Some\([^;]*\blast_cseq\b", ly))
    neg = bool(re.search(r"next_peer_cseq\s*=\s*Some\([^;]*\brequest_cseq\b", ly))
    w("(* DialogLayer::receive: after releasing parked requests the next expected CSeq is the last released number + 1 *)")
    flag(w, "next_cseq_from_last_released", pos and not neg, neg, "how DialogLayer::receive computes the next expected CSeq after a release")
    seq_at = re.search(r"next_peer_cseq", ly)
    early = re.search(r"usages\s*\.\s*(is_empty\(\)|len\(\)\s*==\s*0)[^{;]*\{\s*return\b", ly)
    neg = bool(early)
    w("(* DialogLayer::receive sequences a request of a known dialog whether or not a usage is registered at that moment *)")
    flag(w, "sequenced_without_usages", bool(seq_at) and not early, neg, "whether DialogLayer::receive looks at the usages before it sequences a request")

    inv = src("crates/sip-ua/src/invite/mod.rs")
    i = inv.find("Method::ACK =>")
    arm = inv[i:inv.find("Method::BYE =>", i)] if i >= 0 else ""
    takes = bool(re.search(r"awaited_ack\w*\s*\.\s*take\(\)", arm))
    back = bool(re.search(r"\*\s*awaited_ack\w*\s*=\s*Some\(", arm))
    peeks = bool(re.search(r"awaited_ack\w*\s*\.\s*as_ref\(\)|take_if\(", arm))
    w("(* InviteUsage::receive (ACK arm) puts the awaited-ACK entry back when the ACK's CSeq is not the awaited one *)")
    flag(w, "ack_mismatch_puts_back", (takes and back) or peeks, takes and not back, "what the ACK arm of InviteUsage::receive does with an entry that does not match")

    ci = src("crates/sip-core/src/transaction/client_inv.rs")
    i = ci.find("CodeKind::Success =>")
    j = ci.find("State::Accepted", i)
    arm = ci[i:j] if i >= 0 and j > i else ""
    neg = bool(re.search(r"reliable\(\)|Duration::ZERO|from_secs\(0\)", arm))
    pos = bool(re.search(r"self\.timeout\s*=\s*[^;]+;", arm)) and not re.search(r"\bif\b|\bmatch\b", arm)
    w("(* ClientInvTsx::handle_msg: the Accepted state lasts 64*T1 on every transport (RFC 6026 timer M) *)")
    flag(w, "timer_m_any_transport", pos and not neg, neg, "the Accepted-state timeout of ClientInvTsx")

    tm = src("crates/sip-core/src/transport/mod.rs")
    b = _fn_body(tm, r"async fn resolve_host_port\b") or _fn_body(tm, r"async fn resolve_uri\b")
    neg = bool(re.search(r"to_canonical\(\)|to_ipv4_mapped\(\)|to_ipv4\(\)|to_ipv6_mapped\(\)", b))
    pos = bool(re.search(r"Host::IP6\(ip\)\s*=>[^,\n]*\(\*ip", b)) and bool(re.search(r"Host::IP4\(ip\)\s*=>[^,\n]*\(\*ip", b))
    w("(* Transports::resolve_host_port uses an IP literal as it is written *)")
    flag(w, "ip_literal_verbatim", pos and not neg, neg, "what Transports::resolve_host_port does with an IP literal")

    st = src("crates/stun-types/src/lib.rs")
    b = _fn_body(st, r"pub fn is_stun_message\b")
    m = must(re.search(r"if\s+i\.len\(\)\s*(<=|<)\s*(\w+)\s*\{\s*return\s+IsStunMessageInfo::TooShort", b), "the length test of is_stun_message")
    n = m.group(2)
    if not n.isdigit():
        allst = "".join(src(os.path.join("crates/stun-types/src", f)) for f in sorted(os.listdir(os.path.join(translate_repo(), "crates/stun-types/src"))) if f.endswith(".rs"))
        n = must(re.search(r"const\s+%s\s*:\s*\w+\s*=\s*(\d+)\s*;" % re.escape(n), allst), "the constant in the length test of is_stun_message").group(1)
    w("(* stun_types::is_stun_message: a datagram of exactly this many bytes (the header) is long enough *)")
    w("Definition stun_header_len : N := %s." % n)
    w("Definition stun_header_len_suffices : bool := %s." % ("true" if m.group(1) == "<" else "false"))
    w("")


def emit_forms9(w, src, must):
    """further decision points (Model/Forms9.v)"""
    si = src("crates/sip-core/src/transaction/server_inv.rs")
    b = _fn_body(si, r"pub async fn retransmit\b")
    neg = bool(re.search(r"reliable\(\)", b))
    pos = bool(re.search(r"send_(outgoing_)?response\(", b)) and not neg
    w("(* Accepted::retransmit hands the 2xx to the transport whatever kind of transport it is *)")
    flag(w, "accepted_retransmit_any_transport", pos, neg, "what Accepted::retransmit does on a reliable transport")

    ini = src("crates/sip-ua/src/invite/initiator.rs")
    b = _fn_body(ini, r"async fn terminate_early_dialogs\b")
    pos = bool(re.search(r"early_list\s*\.\s*drain\(\s*\.\.\s*\)|mem::take\(&mut self\.early_list\)|for\s+[^\n]*\bin\s+(&(mut )?)?self\.early_list\b", b))
    neg = bool(re.search(r"early_list\s*\.\s*(swap_)?remove\(\s*\w+\s*\)", b)) and bool(re.search(r"\w+\s*\+=\s*1", b))
    w("(* Initiator::terminate_early_dialogs drains its list: every early dialog is told *)")
    flag(w, "early_dialogs_drained", pos and not neg, neg, "how Initiator::terminate_early_dialogs walks its list")

    st = src("crates/sip-core/src/transport/streaming/mod.rs")
    b = _fn_body(st, r"async fn task_accept\b")
    acc = re.search(r"\.accept\(\)\s*\.await", b)
    lp = b.find("loop {")
    helpers = [m.group(1) for m in re.finditer(r"fn\s+(\w+)\s*\(", st) if m.group(1) != "task_accept" and re.search(r"\bsleep\(", _fn_body(st, r"fn\s+%s\s*\(" % m.group(1)))
               and m.group(1) not in ("receive_task", "next_step", "create")]
    sl = [m.start() for m in re.finditer(r"\bsleep\(|ReceiveTaskState::unused\(" + "".join("|\\b%s\\(" % h for h in helpers), b)]
    neg = bool(acc and lp >= 0 and any(lp < x < acc.start() for x in sl))
    pos = bool(acc and sl and all(x > acc.start() for x in sl))
    w("(* task_accept creates the 32 s idle timer of an accepted connection after accept() has returned *)")
    flag(w, "idle_timer_armed_at_accept", pos and not neg, neg, "where task_accept creates the idle timer of an accepted connection")

    ig = src("crates/stun-types/src/attributes/integrity.rs")
    b = _fn_body(ig, r"fn message_integrity_decode\b") or ig
    neg = bool(re.search(r"\.zip\(", b))
    pos = bool(re.search(r"result\s*\.\s*as_slice\(\)\s*!=\s*value|\w+\s*\.\s*as_slice\(\)\s*(!=|==)\s*\w+|verify_slice\(", b)) and not neg
    w("(* message_integrity_decode compares the whole value with the digest (slice inequality: lengths included) *)")
    flag(w, "integrity_compares_whole_value", pos, neg, "how message_integrity_decode compares digest and value")

    dc = src("crates/sip-core/src/transport/streaming/decode.rs")
    names = set(re.findall(r"let\s+(\w+)\s*=\s*parser\s*\.\s*head_end\(\)\s*;", dc)) | {"head_end"}
    alt = "|".join(sorted(re.escape(n) for n in names))
    pos = bool(re.search(r"if\s+(parser\s*\.\s*head_end\(\)|%s)\s*>\s*[\w:]+\s*\{\s*return\s+Err\(Error::MessageTooLarge" % alt, dc))
    neg = bool(re.search(r"head_end\(\)\s*\+\s*1|if\s+(parser\s*\.\s*head_end\(\)|%s)\s*>=\s*[\w:]+\s*\{\s*return\s+Err\(Error::MessageTooLarge" % alt, dc))
    w("(* StreamingDecoder::decode refuses a complete head only when it is LONGER than the limit *)")
    flag(w, "head_limit_inclusive", pos and not neg, neg, "the size check of a complete head in StreamingDecoder::decode")

    sd = src("crates/sdp-types/src/lib.rs")
    b = _fn_body(sd, r"fn not_whitespace\b")
    pos = "is_ascii_whitespace()" in b
    neg = bool(re.search(r"\bis_whitespace\(\)", b))
    w("(* sdp-types: the token predicate ends a token at ASCII white space only *)")
    flag(w, "sdp_ws_is_ascii", pos and not neg, neg, "the white-space predicate of sdp-types")

    ci = src("crates/sip-core/src/transaction/client_inv.rs")
    if os.path.exists(os.path.join(translate_repo(), "crates/sip-core/src/transaction/ack.rs")):
        ci += src("crates/sip-core/src/transaction/ack.rs")
    b = _fn_body(ci, r"fn create_ack\b") + _fn_body(ci, r"fn ack_headers\b")
    pos = bool(re.search(r"clone_into\(\s*&mut\s+\w+\s*,\s*Name::VIA\s*\)", b))
    neg = bool(re.search(r"create_via\(", b))
    w("(* create_ack copies the Via of the INVITE (it does not make one afresh from the transport) *)")
    flag(w, "ack_via_cloned", pos and not neg, neg, "where create_ack takes the Via from")

    pk = src("crates/sip-ua/src/invite/prack.rs")
    b = _fn_body(pk, r"async fn handle_prack\b")
    neg = bool(re.search(r"Ok\(\(\)\)\s*=>\s*\w+\s*\.\s*respond\(|is_ok\(\)\s*\{[^}]*\.respond\(", b))
    pos = bool(re.search(r"\}\s*\n\s*\w+\s*\.\s*respond\(\s*\w+\s*\)\s*\.await\s*\n\s*\}", b)) and not neg
    w("(* InviteUsage::handle_prack answers a PRACK it has taken whether or not the acceptor still waits for it *)")
    flag(w, "prack_answered_unconditionally", pos, neg, "whether handle_prack answers a PRACK whose receiver is gone")

    ss = src("crates/sip-ua/src/invite/session.rs")
    b = _fn_body(ss, r"pub async fn process_default\b")
    pos = bool(re.search(r"let\s+mut\s+\w*ack\w*\s*(:\s*[^=]+)?=\s*None\s*;", b))
    neg = bool(re.search(r"self\s*\.\s*(session\s*\.\s*)?\w*ack\w*\s*(\.\s*insert\(|=\s*Some\()|&mut\s+self\s*\.\s*session\s*\.\s*\w*ack\w*", b))
    w("(* RefreshNeeded::process_default keeps the ACK of a refresh in a local of that call *)")
    flag(w, "refresh_ack_per_round", pos and not neg, neg, "where RefreshNeeded::process_default keeps the ACK of a refresh")
    w("")


def emit_forms10(w, src, must):
    """third batch of decision points (Model/Forms10.v)"""
    mc = src("crates/sip-types/src/macros.rs")
    i = mc.find("macro_rules! lookup_table")
    b = mc[i:mc.find("macro_rules!", i + 10)] if i >= 0 and mc.find("macro_rules!", i + 10) > 0 else mc[i:] if i >= 0 else ""
    neg = bool(re.search(r"<=\s*(LOOKUP_TABLE\s*\.\s*len\(\)|128)", b))
    pos = bool(re.search(r"is_ascii\(\)\s*&&|<\s*(LOOKUP_TABLE\s*\.\s*len\(\)|128)\b|\.get\(\s*\w+\s*\)", b)) and not neg
    w("(* the character-class lookup (lookup_table!) only indexes its table with a character strictly below the table's length *)")
    flag(w, "lookup_index_guarded", pos, neg, "the bounds guard of the lookup_table! macro")

    cl = src("crates/sip-core/src/transaction/client.rs")
    b = _fn_body(cl, r"pub async fn receive_final\b")
    pos = bool(re.search(r"\bloop\b|\bwhile\b", b))
    neg = (not pos) and bool(re.search(r"self\s*\.\s*receive\(\)\s*\.await", b))
    w("(* ClientTsx::receive_final discards provisional responses in a loop *)")
    flag(w, "receive_final_loops", pos, neg, "whether ClientTsx::receive_final loops over provisional responses")

    sv = src("crates/sip-core/src/transaction/server.rs")
    b = _fn_body(sv, r"pub async fn respond\b")
    pos = bool(re.search(r"if\s+[^\n{]*reliable\(\)\s*\{\s*return\s+Ok\(\(\)\)", b))
    neg = (not pos) and bool(re.search(r"reliable\(\)", b))
    w("(* ServerTsx::respond returns right after the one transmission over a reliable transport (no absorbing task) *)")
    flag(w, "nonink_reliable_returns_at_once", pos, neg, "what ServerTsx::respond does after the first transmission over a reliable transport")

    ci = src("crates/sip-core/src/transaction/client_inv.rs")
    b = _fn_body(ci, r"async fn handle_msg\b") or _fn_body(ci, r"fn handle_msg\b")
    arms = [(m.start(), m.group(1)) for m in re.finditer(r"\n\s*((?:CodeKind::\w+\s*\|?\s*)+|_)\s*=>", b)]
    ack_at = b.find("create_ack(")
    arm = None
    for pos_, pat in arms:
        if pos_ < ack_at or ack_at < 0:
            arm = pat if pos_ < ack_at else arm
    helper = re.search(r"_\s*=>\s*\{?\s*[^\n]*(acknowledge_failure|create_ack|take\(\)\.expect)", b)
    pos = (arm is not None and arm.strip() == "_") or bool(helper)
    neg = arm is not None and arm.strip() != "_" and "GlobalFailure" not in arm and "CodeKind::" in arm
    w("(* ClientInvTsx::handle_msg: every final response that is not a 2xx takes the ACK arm (catch-all) *)")
    flag(w, "non2xx_arm_catches_all", pos and not neg, neg, "which match arm of ClientInvTsx::handle_msg builds the ACK")

    ky = src("crates/sip-ua/src/dialog/key.rs")
    dm = src("crates/sip-ua/src/dialog/mod.rs")
    kb = _fn_body(dm, r"pub fn key\b")
    neg = bool(re.search(r"to_ascii_lowercase|to_lowercase|to_ascii_uppercase|eq_ignore_ascii_case", ky + kb))
    pos = bool(re.search(r"clone_detach\(\)", ky)) and not neg
    w("(* dialog keys hold Call-ID and tags byte for byte *)")
    flag(w, "dialog_key_bytewise", pos, neg, "how dialog keys hold their tags")

    ac = src("crates/sip-ua/src/invite/acceptor.rs")
    b = _fn_body(ac, r"pub async fn respond_success\b")
    neg = bool(re.search(r"peer_contact\s*=[^=]", b))
    pos = ("Session::new(" in b or "into_session(" in b) and not neg
    w("(* Acceptor::respond_success leaves the dialog's remote target alone (it is the Contact of the INVITE) *)")
    flag(w, "callee_target_from_invite", pos, neg, "whether Acceptor::respond_success assigns the dialog's peer contact")

    tm = src("crates/sip-core/src/transport/mod.rs")
    b = _fn_body(tm, r"async fn select\b") + _fn_body(tm, r"async fn select_for_server\b")
    neg = bool(re.search(r"\.or\(\s*self\s*\.\s*connect\(", b))
    pos = bool(re.search(r"if\s+let\s+Some\(\w+\)\s*=\s*self\s*\.\s*find_matching_idling_transport\([^\n]*\{\s*return", b)) or bool(re.search(r"\.or_else\(", b))
    w("(* Transports::select asks a factory to connect only when no existing transport was found *)")
    flag(w, "connect_only_when_none_found", pos and not neg, neg, "whether Transports::select connects before it knows that nothing was found")

    rg = src("crates/sip-ua/src/register/mod.rs")
    b = _fn_body(rg, r"pub fn receive_success_response\b") + _fn_body(rg, r"fn set_lifetime\b")
    pos = bool(re.search(r"self\s*\.\s*expires\s*=[^=]", b))
    neg = (not pos) and "create_reg_interval(" in b
    w("(* Registration::receive_success_response stores the lifetime the registrar granted *)")
    flag(w, "granted_lifetime_stored", pos, neg, "whether receive_success_response stores the granted lifetime")

    ps = src("crates/stun-types/src/parse.rs")
    b = _fn_body(ps, r"pub fn get_attr_with\b") or ps
    m = re.search(r"after_integrity\s*&&\s*!matches!\(\s*attr\s*\.\s*typ\s*,([^)]*)\)", b, re.S)
    lst = m.group(1) if m else ""
    pos = "MessageIntegritySha256::TYPE" in lst and "Fingerprint::TYPE" in lst
    neg = bool(m) and "MessageIntegritySha256::TYPE" not in lst
    w("(* ParsedMessage::get_attr_with: behind an integrity attribute MESSAGE-INTEGRITY-SHA256 and FINGERPRINT stay visible *)")
    flag(w, "sha256_visible_after_integrity", pos, neg, "the attributes ParsedMessage::get_attr_with lets through behind an integrity attribute")

    sd = src("crates/sdp-types/src/session_description.rs")
    i = sd.find("impl SessionDescription")
    b = _fn_body(sd[i:] if i >= 0 else sd, r"pub fn parse\b")
    head = b[:b.find("for ")] if "for " in b else b
    neg = bool(re.search(r"trim_end|\.trim\(\)|str::trim|trim_matches", head))
    pos = bool(re.search(r"\.split\(", head)) and not neg
    w("(* SessionDescription::parse hands every line to the field parsers as it is (nothing trimmed) *)")
    flag(w, "sdp_lines_verbatim", pos, neg, "whether SessionDescription::parse trims its lines")

    i = ac.find("impl Drop for Acceptor")
    b = ac[i:ac.find("\n}\n", i) + 3] if i >= 0 else ""
    neg = bool(re.search(r"\breturn\b", b))
    pos = bool(re.search(r"\.remove\(", b)) and not neg
    w("(* Drop for Acceptor removes its pending-cancel entry whatever the state *)")
    flag(w, "acceptor_drop_always_removes", pos, neg, "whether Drop for Acceptor can return before it removes its entry")

    ly = src("crates/sip-ua/src/dialog/layer.rs")
    i = ly.find("impl Drop for UsageGuard")
    gb = ly[i:ly.find("\n}\n", i) + 3] if i >= 0 else ""
    neg = bool(re.search(r"try_lock(_for|_until)?\(", gb))
    pos = bool(re.search(r"\.lock\(\)", gb)) and not neg
    w("(* Drop for UsageGuard waits for the dialog layer's lock (it does not give up when the lock is held elsewhere) *)")
    flag(w, "usage_guard_drop_waits", pos, neg, "how Drop for UsageGuard takes the dialog layer's lock")
    ini = src("crates/sip-ua/src/invite/initiator.rs")
    us = ""
    if os.path.exists(os.path.join(translate_repo(), "crates/sip-ua/src/invite/uac_session.rs")):
        us = src("crates/sip-ua/src/invite/uac_session.rs")
    b = _fn_body(ini, r"fn create_session\b") + _fn_body(us, r"fn prepare\b")
    neg = bool(re.search(r"new_unsupported\(\)|if\s+peer_supports_timer\s*\{[^}]*create_timer_from_response", b, re.S))
    pos = bool(re.search(r"create_timer_from_response\(\s*\w+\s*\)\s*\?", b)) and not neg
    w("(* Initiator::create_session makes the session timer from the Session-Expires of the 2xx alone *)")
    flag(w, "session_timer_from_header", pos, neg, "what Initiator::create_session makes the session timer from")
    st = src("crates/stun/src/lib.rs")
    b = _fn_body(st, r"pub async fn send_request\b")
    def _events(body, depth=0):
        """textual order of table insertions (I) and transmissions (S) in a function body, looking one level into helper methods"""
        ev = [(m.start(), "S") for m in re.finditer(r"send_to\(", body)] + [(m.start(), "I") for m in re.finditer(r"\.insert\(", body)]
        if depth < 2:
            for m in re.finditer(r"self\s*\.\s*(\w+)\(", body):
                hb = _fn_body(st, r"fn %s\b" % re.escape(m.group(1))) if m.group(1) not in ("send_request",) else ""
                if hb:
                    ev += [(m.start(), k) for _, k in _events(hb, depth + 1)]
        return sorted(ev, key=lambda e: e[0])
    order = "".join(k for _, k in _events(b))
    neg = bool(re.search(r"S.*I", order))
    pos = bool(re.match(r"I+S+$", order))
    w("(* StunEndpoint::send_request enters the transaction id into the table before the first transmission is handed to the transport *)")
    flag(w, "stun_tsx_registered_before_send", pos, neg, "where StunEndpoint::send_request registers the transaction id relative to the first send_to")
    w("")


SECTIONS = [("codes", emit_codes), ("timers", emit_timers), ("guards", emit_guards), ("stun", emit_stun), ("sdp", emit_sdp), ("sip", emit_sip), ("auth", emit_auth), ("ua", emit_ua), ("tsxforms", emit_tsxforms), ("streamforms", emit_streamforms), ("cancelforms", emit_cancelforms), ("stunforms", emit_stunforms), ("uaforms", emit_uaforms), ("forms8", emit_forms8), ("forms9", emit_forms9), ("forms10", emit_forms10)]

# which properties' models read which section of Gen/Tables.v
SECTION_USERS = {
    "tsx": ["C04", "C05", "C06", "C07", "C12", "C13", "C16"],
    "codes": ["C09"],
    "timers": ["C17", "C02"],
    "guards": ["C02", "C03", "C08", "C10"],
    "stun": ["C20", "C16"],
    "sdp": ["C19"],
    "sip": ["C01"],
    "auth": ["C18"],
    "ua": ["C13"],
    "tsxforms": ["C04", "C07"],
    "streamforms": ["C15"],
    "cancelforms": ["C12"],
    "stunforms": ["C20", "C16"],
    "uaforms": ["C12", "C06", "C07"],
    "forms10": ["C02", "C05", "C06", "C07", "C10", "C11", "C13", "C14", "C16", "C17", "C19", "C20"],
    "forms9": ["C03", "C07", "C08", "C11", "C12", "C13", "C15", "C19", "C20"],
    "forms8": ["C02", "C04", "C06", "C09", "C10", "C12", "C13", "C14", "C16", "C20"],
}
