"""Further generated tables; each emit_* is added as the property that needs it is built."""


def emit(w, src, must):
    pass
