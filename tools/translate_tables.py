"""Further generated tables; each emit_* is added as the property that needs it is built."""
import re


def blist(b):
    return "[" + "; ".join("x%02x" % c for c in b) + "]"


def emit(w, src, must):
    emit_codes(w, src, must)
    emit_timers(w, src, must)


def emit_timers(w, src, must):
    t = src("crates/sip-ua/src/invite/timer.rs")
    subs = re.findall(r"saturating_sub\((\d+)\)", t)
    adds = re.findall(r"saturating_add\((\d+)\)", t)
    must(len(subs) == 2 and len(adds) == 2 and len(set(subs + adds)) == 1, "session timer margins (two saturating_sub / two saturating_add with one value) in invite/timer.rs")
    w("(* session-timer safety margin (seconds) and the acceptor's default interval, sip-ua/src/invite/timer.rs *)")
    w("Definition se_margin_s : N := %s." % subs[0])
    m = must(re.search(r"interval_secs: (\d+),", t), "default session interval")
    w("Definition se_default_interval_s : N := %s." % m.group(1))
    r = src("crates/sip-ua/src/register/mod.rs")
    m1 = must(re.search(r"period\.max\(Duration::from_secs\((\d+)\)\)", r), "register minimum period")
    m2 = must(re.search(r"period - Duration::from_secs\((\d+)\)", r), "register margin")
    w("(* registration refresh: period = max(lifetime, reg_min_s) - reg_margin_s, sip-ua/src/register/mod.rs *)")
    w("Definition reg_min_s : N := %s." % m1.group(1))
    w("Definition reg_margin_s : N := %s." % m2.group(1))
    w("")


def emit_codes(w, src, must):
    text = src("crates/sip-types/src/code.rs")
    rows = re.findall(r'\[(\d+) => (\w+), "([^"]*)"\];', text)
    must(len(rows) > 40, "status code table in code.rs")
    w("(* status code -> default reason phrase (codes! in sip-types/src/code.rs) *)")
    w("Definition code_reasons : list (N * list byte) :=")
    w("  [" + ";\n   ".join("(%s, %s)" % (c, blist(t.encode())) for (c, _, t) in rows) + "].")
    w("")
