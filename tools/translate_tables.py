"""Further generated tables; each emit_* is added as the property that needs it is built."""
import re


def blist(b):
    return "[" + "; ".join("x%02x" % c for c in b) + "]"


def emit(w, src, must):
    for _, fn in SECTIONS:
        fn(w, src, must)


def emit_timers(w, src, must):
    t = src("crates/sip-ua/src/invite/timer.rs")
    subs = re.findall(r"saturating_sub\((\d+)\)", t)
    adds = re.findall(r"saturating_add\((\d+)\)", t)
    must(len(subs) >= 1 and len(adds) >= 1 and len(set(subs + adds)) == 1, "session timer margins (saturating_sub / saturating_add with one value) in invite/timer.rs")
    w("(* session-timer safety margin (seconds) and the acceptor's default interval, sip-ua/src/invite/timer.rs *)")
    w("Definition se_margin_s : N := %s." % subs[0])
    m = must(re.search(r"interval_secs: (\d+),", t), "default session interval")
    w("Definition se_default_interval_s : N := %s." % m.group(1))
    r = src("crates/sip-ua/src/register/mod.rs")
    m1 = must(re.search(r"\w+\.max\(Duration::from_secs\((\d+)\)\)", r), "register minimum period")
    fn_body = r[r.index("fn create_reg_interval"):]
    m2 = must(re.search(r"-\s*Duration::from_secs\((\d+)\)", fn_body), "register margin")
    w("(* registration refresh: period = max(lifetime, reg_min_s) - reg_margin_s, sip-ua/src/register/mod.rs *)")
    w("Definition reg_min_s : N := %s." % m1.group(1))
    w("Definition reg_margin_s : N := %s." % m2.group(1))
    w("")


def emit_codes(w, src, must):
    text = src("crates/sip-types/src/code.rs")
    rows = re.findall(r'\[(\d+) => (\w+), "([^"]*)"\];', text)
    must(len(rows) > 40, "status code table in code.rs")
    w("(* status code -> default reason phrase (codes! in sip-types/src/code.rs) *)")
    w("Definition code_reasons : list (N * list byte) :=")
    w("  [" + ";\n   ".join("(%s, %s)" % (c, blist(t.encode())) for (c, _, t) in rows) + "].")
    w("")


def emit_guards(w, src, must):
    """which form two guards of the receive path have in the source (C02): booleans, not `must`,
    so that the unguarded form yields a model whose totality theorem fails instead of a translator error"""
    t = src("crates/sip-core/src/transport/parse.rs")
    body = t[t.index("fn parse_complete_sip"):]
    checked = bool(re.search(r"head_end\s*\.checked_add\(", body)) and not re.search(r"head_end\s*\+\s*\w", body)
    w("(* parse_complete_sip computes the announced body end with checked_add (sip-core/src/transport/parse.rs) *)")
    w("Definition dg_body_end_checked : bool := %s." % ("true" if checked else "false"))
    l = src("crates/sip-core/src/lib.rs")
    ext = l[l.index("fn extract_from"):]
    ext = ext[:ext.index("\n    }\n") + 1]
    req = bool(re.search(r"if via\.is_empty\(\)\s*\{\s*return Err", ext))
    w("(* BaseHeaders::extract_from rejects a message without a usable Via before do_receive indexes via[0] (sip-core/src/lib.rs) *)")
    w("Definition base_requires_via : bool := %s." % ("true" if req else "false"))
    d = src("crates/sip-core/src/transport/streaming/decode.rs")
    saved = bool(re.search(r"let content_len = self\.content_len;", d)) and bool(re.search(r"src_bytes\.slice\(head_end\.\.head_end \+ content_len\)", d)) \
        and not re.search(r"let content_len = headers", d)
    w("(* the stream decoder slices the body with the length its first pass saved, not with a value decoded again from the headers *)")
    w("Definition stream_body_len_saved : bool := %s." % ("true" if saved else "false"))
    dl = src("crates/sip-ua/src/dialog/layer.rs")
    gt = dl[dl.index("Ordering::Greater =>"):]
    gt = gt[:gt.index("\n                }\n") if "\n                }\n" in gt else len(gt)]
    # two spellings of the guard: `contains_key` + return in front of the insert, or the Entry API inserting only into a vacant slot
    pre_insert = gt[:gt.index("backlog.insert(")] if "backlog.insert(" in gt else ""
    guard_a = bool(re.search(r"if \w+\.backlog\.contains_key\(&\w+\)\s*\{\s*return;\s*\}", pre_insert))
    guard_b = "backlog.insert(" not in gt and bool(re.search(r"\.backlog\.entry\(\w+\)", gt)) and "Vacant" in gt and not re.search(r"Occupied\([^)]*\)\s*=>\s*\{[^}]*insert", gt)
    guard = guard_a or guard_b
    w("(* DialogLayer::receive does not overwrite a parked request with another one carrying the same CSeq (sip-ua/src/dialog/layer.rs) *)")
    w("Definition dlg_backlog_no_overwrite : bool := %s." % ("true" if guard else "false"))
    w("")


def emit_stun(w, src, must):
    """constants and forms of the STUN codec the model of C20 depends on"""
    lib = src("crates/stun-types/src/lib.rs")
    m = must(re.search(r"const COOKIE: u32 = 0x([0-9A-Fa-f]+);", lib), "STUN magic cookie")
    w("(* crates/stun-types: magic cookie, address attribute lengths, CRC polynomial, fingerprint xor; crates/stun: retry loop *)")
    w("Definition stun_cookie : N := %d." % int(m.group(1), 16))
    addr = src("crates/stun-types/src/attributes/addr.rs")
    v4 = set(re.findall(r"SocketAddr::V4\(_\) => Ok\((\d+)\)", addr))
    v6 = set(re.findall(r"SocketAddr::V6\(_\) => Ok\((\d+)\)", addr))
    must(len(v4) == 1 and len(v6) == 1, "address attribute encode_len (one value per family)")
    w("Definition stun_addr4_len : N := %s." % v4.pop())
    w("Definition stun_addr6_len : N := %s." % v6.pop())
    be = len(re.findall(r"from_be_bytes\(addr\.ip\(\)\.octets\(\)\)", addr)) == 2 and "from_ne_bytes" not in addr
    w("Definition stun_addr_network_order : bool := %s." % ("true" if be else "false"))
    fp = src("crates/stun-types/src/attributes/fingerprint.rs")
    poly = must(re.search(r"c = 0x([0-9a-f]+) \^ \(c >> 1\)", fp), "CRC polynomial")
    xors = set(re.findall(r"crc32\(data\) \^ 0x([0-9a-f]{8});", fp))
    must(len(xors) == 1, "fingerprint xor constant (same in encode and decode)")
    w("Definition stun_crc_poly : N := %d." % int(poly.group(1), 16))
    w("Definition stun_fp_xor : N := %d." % int(xors.pop(), 16))
    dec = fp[fp.index("fn decode"):fp.index("fn encode")]
    w("Definition stun_fp_excludes_own_header : bool := %s." % ("true" if re.search(r"buffer\(\)\[\.\.attr\.begin - 4\]", dec) else "false"))
    cl = src("crates/stun/src/lib.rs")
    r = must(re.search(r"for _\w* in 0\.\.(\d+)(?:u32|usize)? \{", cl), "STUN retry count")
    d = must(re.search(r"let mut (\w+) = Duration::from_millis\((\d+)\);", cl), "STUN initial timeout")
    must(re.search(r"\b%s \*= 2\b" % re.escape(d.group(1)), cl), "STUN timeout doubling")
    w("Definition stun_attempts : N := %s." % r.group(1))
    w("Definition stun_initial_ms : N := %s." % d.group(2))
    pr = src("crates/stun-types/src/parse.rs")
    w("Definition stun_trim_only_variable : bool := %s." % ("true" if "trimmed_end" in pr and re.search(r"end: value_end,", pr) else "false"))
    w("")


def emit_sdp(w, src, must):
    """token tables of sdp-types and the form of the matchers the model of C19 depends on"""
    media = src("crates/sdp-types/src/media.rs")
    mt = re.findall(r'"(\w+)" => Ok\(MediaType::(\w+)\)', media)
    pr = re.findall(r'"([\w/]+)" => TransportProtocol::(\w+),', media)
    w("(* crates/sdp-types: media types, transport protocols, SRTP suites, direction keywords -- as the parsers match them *)")
    w("Definition sdp_media_types : list (list byte) := [%s]." % "; ".join(blist(a.encode()) for a, _ in mt))
    w("Definition sdp_protocols : list (list byte) := [%s]." % "; ".join(blist(a.encode()) for a, _ in pr))
    whole = bool(mt) and bool(pr) and 'tag("audio")' not in media and 'tag("RTP/SAVP")' not in media
    crypto = src("crates/sdp-types/src/attributes/crypto.rs")
    m = must(re.search(r"suite! \{([^}]*)\}", crypto), "SRTP suite list")
    suites = [x.strip() for x in m.group(1).split(",") if x.strip()]
    w("Definition sdp_suites : list (list byte) := [%s]." % "; ".join(blist(a.encode()) for a in suites))
    whole = whole and "map(tag(stringify!($suite))" not in crypto and 'tag("UNENCRYPTED_SRTP")' not in crypto
    w("Definition sdp_tokens_matched_whole : bool := %s." % ("true" if whole else "false"))
    w("Definition sdp_lifetime_checked_pow : bool := %s." % ("true" if "2u32.checked_pow(n)" in crypto and "2u32.pow(n)" not in crypto else "false"))
    d = src("crates/sdp-types/src/attributes/direction.rs")
    dn = re.findall(r'Direction::(\w+) => "(\w+)"', d)
    w("Definition sdp_directions : list (list byte) := [%s]." % "; ".join(blist(b.encode()) for _, b in dn))
    sd = src("crates/sdp-types/src/session_description.rs")
    disp = sd[sd.index("impl fmt::Display for MediaDescription"):sd.index("/// The Session Description message")]
    w("Definition sdp_prints_candidates : bool := %s." % ("true" if "self.ice_candidates" in disp and "a=end-of-candidates" in disp else "false"))
    sdisp = sd[sd.index("impl fmt::Display for SessionDescription"):sd.index("#[derive(Default)]\nstruct Parser")]
    w("Definition sdp_prints_session_direction : bool := %s." % ("true" if "self.direction" in sdisp else "false"))
    w("Definition sdp_ice_lite_flag : bool := %s." % ("true" if re.search(r'"ice-lite" => self\.ice_lite = true,\s*\n\s*"end-of-candidates"', sd) else "false"))
    w("")


def _class_bytes(text, fn_name, must):
    m = must(re.search(r"fn %s\(c: char\) -> bool \{\s*lookup_table!\(c => ([^\n]*)\)\s*\}" % fn_name, text), "character class " + fn_name)
    spec = re.sub(r"/\*.*?\*/", "", m.group(1))
    chars = set()
    if "alpha;" in spec:
        chars |= set(range(65, 91)) | set(range(97, 123))
    if "num;" in spec:
        chars |= set(range(48, 58))
    for lit in re.findall(r"'(\\.|[^'\\])'", spec):
        chars.add(ord(lit[-1]))
    return sorted(chars)


def emit_sip(w, src, must):
    """character classes, method names and escaping forms of sip-types the model of C01 depends on"""
    sipuri = src("crates/sip-types/src/uri/sip.rs")
    params = src("crates/sip-types/src/uri/params.rs")
    parse = src("crates/sip-types/src/parse.rs")
    w("(* crates/sip-types: character classes of the URI parsers (lookup_table!), method names, escaping forms *)")
    for name, text, fn in (("sip_user_class", sipuri, "user"), ("sip_password_class", sipuri, "password"), ("sip_param_class", params, "param_char"),
                           ("sip_header_class", params, "header_char"), ("sip_token_class", parse, "token")):
        w("Definition %s : list byte := %s." % (name, blist(bytes(_class_bytes(text, fn, must)))))
    macros = src("crates/sip-types/src/macros.rs")
    enc = macros[macros.index("macro_rules! encode_set"):]
    w("Definition sip_encode_set_has_percent : bool := %s." % ("true" if re.search(r"set\.add\(b'%'\)", enc) else "false"))
    method = src("crates/sip-types/src/method.rs")
    names = re.findall(r'^\s*"([A-Z]+)",\s+[A-Z]+;', method, re.M)
    must(len(names) >= 14, "method table")
    w("Definition sip_method_names : list (list byte) := [%s]." % "; ".join(blist(n.encode()) for n in names))
    w("Definition sip_method_exact : bool := %s." % ("true" if "tag_no_case" not in method and re.search(r"\$\(\$print => Self\(Repr::\$ident\),\)\*", method) else "false"))
    ft = src("crates/sip-types/src/header/typed/from_to.rs")
    w("Definition sip_tag_escaped : bool := %s." % ("true" if re.search(r'";tag=\{\}",\s*percent_encode\(tag', ft) else "false"))
    na = src("crates/sip-types/src/uri/name_addr.rs")
    w("Definition sip_display_quoted_escaped : bool := %s." % ("true" if "parse_quoted_string" in na and re.search(r"if matches!\(c, '\"' \| '\\\\'\)", na) else "false"))
    # header_names! table: print string and the spellings Name::from_bytes accepts (in table order)
    hn = src("crates/sip-types/src/header/name.rs")
    rows = re.findall(r'^\s*"([^"]+)",\s+\w+,\s+\[([^\]]+)\],\s+\w+;', hn[hn.index("header_names! {"):], re.M)
    must(len(rows) >= 40, "header name table")
    w("Definition sip_header_names : list (list byte * list (list byte)) := [%s]." % ";\n  ".join(
        "(%s, [%s])" % (blist(pr.encode()), "; ".join(blist(x.encode()) for x in re.findall(r'"([^"]+)"', ps))) for pr, ps in rows))
    ep = src("crates/sip-core/src/endpoint.rs")
    w("Definition sip_send_replaces_content_length : bool := %s." % ("true" if len(re.findall(
        r"headers\.remove\(&Name::CONTENT_LENGTH\);\s*message\s*\.msg\s*\.headers\s*\.insert\(Name::CONTENT_LENGTH, message\.msg\.body\.len\(\)\.to_string\(\)\);", ep)) == 2 else "false"))
    w("")


def emit_auth(w, src, must):
    """the form of CredentialStore::add_for_realm the model of C18 depends on"""
    a = src("crates/sip-auth/src/lib.rs")
    body = a[a.index("pub fn add_for_realm"):]
    body = body[:body.index("\n    }\n")]
    ins = bool(re.search(r"self\.map\.insert\(\s*realm\.into\(\)\s*,\s*credentials\s*\)", body))
    keep = bool(re.search(r"or_insert|Vacant|contains_key", body))
    must(ins or keep, "CredentialStore::add_for_realm (HashMap::insert, or a form that keeps the first entry)")
    w("(* CredentialStore::add_for_realm stores with HashMap::insert: the credentials given last for a realm replace the earlier ones (sip-auth/src/lib.rs) *)")
    w("Definition auth_store_add_replaces : bool := %s." % ("true" if ins and not keep else "false"))
    w("")


SECTIONS = [("codes", emit_codes), ("timers", emit_timers), ("guards", emit_guards), ("stun", emit_stun), ("sdp", emit_sdp), ("sip", emit_sip), ("auth", emit_auth)]

# which properties' models read which section of Gen/Tables.v
SECTION_USERS = {
    "tsx": ["C04", "C05", "C06", "C07", "C12", "C13", "C16"],
    "codes": ["C09"],
    "timers": ["C17", "C02"],
    "guards": ["C02", "C03", "C08", "C10"],
    "stun": ["C20", "C16"],
    "sdp": ["C19"],
    "sip": ["C01"],
    "auth": ["C18"],
}
