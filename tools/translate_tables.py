"""Further generated tables; each emit_* is added as the property that needs it is built."""
import re


def blist(b):
    return "[" + "; ".join("x%02x" % c for c in b) + "]"


def emit(w, src, must):
    emit_codes(w, src, must)


def emit_codes(w, src, must):
    text = src("crates/sip-types/src/code.rs")
    rows = re.findall(r'\[(\d+) => (\w+), "([^"]*)"\];', text)
    must(len(rows) > 40, "status code table in code.rs")
    w("(* status code -> default reason phrase (codes! in sip-types/src/code.rs) *)")
    w("Definition code_reasons : list (N * list byte) :=")
    w("  [" + ";\n   ".join("(%s, %s)" % (c, blist(t.encode())) for (c, _, t) in rows) + "].")
    w("")
