#!/bin/sh
# tools/try_mutant.sh <patch.diff> <Cxx> [Cyy ...]  -- apply a seeded change to /repo, run quick checks, undo it
patch="$(readlink -f "$1")"; shift
cd /repo || exit 2
if ! git apply --check "$patch" 2>/dev/null; then
  if ! git apply -3 --check "$patch" 2>/dev/null; then echo "patch does not apply"; exit 2; fi
  git apply -3 "$patch"
else
  git apply "$patch"
fi
git reset -q 2>/dev/null
for p in "$@"; do
  (cd /verif && bin/check "$p" quick 2>&1 | tail -3)
done
cd /repo && git checkout -- . && git clean -fdq -- crates && git status --short | head -3
