"""Shared machinery for the per-property checks (see DESIGN.md section 2 and 8)."""
import fcntl
import hashlib
import json
import os
import random
import re
import subprocess
import sys
import time

VERIF = os.path.dirname(os.path.dirname(os.path.abspath(__file__)))
REPO = "/repo"
COQ = os.path.join(VERIF, "coq")
BUILD = os.path.join(VERIF, "build")
HARNESS = os.path.join(VERIF, "harness")
OCAML = os.path.join(VERIF, "ocaml")

ENV = dict(os.environ)
ENV.update({"CARGO_NET_OFFLINE": "true", "RUST_BACKTRACE": "0", "GOPROXY": "off", "PIP_NO_INDEX": "1"})

FORBIDDEN = re.compile(
    r"\b(Admitted|admit|Axiom|Axioms|Parameter|Parameters|Conjecture|Conjectures|Unset\s+Guard|"
    r"bypass_check|Admit\s+Obligations|Unset\s+Positivity|Unset\s+Universe\s+Checking)\b|type-in-type|impredicative-set"
)

ALLOWED_AXIOMS = set()  # no axiom is used by this development; anything printed fails the audit


def log(*a):
    print(*a, file=sys.stderr, flush=True)


class BuildLock:
    def __enter__(self):
        os.makedirs(BUILD, exist_ok=True)
        self.f = open(os.path.join(BUILD, ".lock"), "w")
        fcntl.flock(self.f, fcntl.LOCK_EX)
        return self

    def __exit__(self, *a):
        fcntl.flock(self.f, fcntl.LOCK_UN)
        self.f.close()


def sh(cmd, cwd=None, timeout=600, env=None):
    """run a command, return (rc, combined output); rc 124 on timeout"""
    try:
        p = subprocess.run(cmd, cwd=cwd, env=env or ENV, stdout=subprocess.PIPE, stderr=subprocess.STDOUT,
                           timeout=timeout, shell=isinstance(cmd, str))
        return p.returncode, p.stdout.decode("utf-8", "replace")
    except subprocess.TimeoutExpired as e:
        return 124, (e.stdout or b"").decode("utf-8", "replace") + "\nTIMEOUT"


# ----------------------------------------------------------------------------------------------
# Coq
# ----------------------------------------------------------------------------------------------
def coq_makefile():
    mk = os.path.join(COQ, "Makefile")
    proj = os.path.join(COQ, "_CoqProject")
    if not os.path.exists(mk) or os.path.getmtime(mk) < os.path.getmtime(proj):
        rc, out = sh(["coq_makefile", "-f", "_CoqProject", "-o", "Makefile"], cwd=COQ)
        if rc != 0:
            raise RuntimeError("coq_makefile failed:\n" + out)


def coq_build(targets, timeout=900):
    """full .vo build of the given targets (make is incremental). Returns (ok, log)."""
    coq_makefile()
    os.makedirs(os.path.join(OCAML, "gen"), exist_ok=True)
    rc, out = sh(["make", "-j16"] + targets, cwd=COQ, timeout=timeout)
    return rc == 0, out


def coq_sources_for(prop_id):
    """the .v files in the closure of the property (approximation: Lib, Gen, and files named after it)"""
    files = []
    for d in ("Lib", "Gen", "Model", "Proofs", "Props", "Extract"):
        dd = os.path.join(COQ, d)
        if not os.path.isdir(dd):
            continue
        for f in sorted(os.listdir(dd)):
            if f.endswith(".v"):
                files.append(os.path.join(dd, f))
    return files


def coq_grep_audit():
    """forbidden constructs anywhere in the development (comments are stripped first)"""
    hits = []
    for path in coq_sources_for(None):
        text = open(path).read()
        text = strip_coq_comments(text)
        for i, line in enumerate(text.split("\n"), 1):
            if FORBIDDEN.search(line):
                hits.append("%s:%d: %s" % (os.path.relpath(path, VERIF), i, line.strip()))
        # Variable/Hypothesis outside a Section
        depth = 0
        for i, line in enumerate(text.split("\n"), 1):
            if re.match(r"\s*Section\s+\w+", line):
                depth += 1
            elif re.match(r"\s*End\s+\w+", line) and depth > 0:
                depth -= 1
            elif depth == 0 and re.match(r"\s*(Variable|Variables|Hypothesis|Hypotheses|Context)\b", line):
                hits.append("%s:%d: %s outside a Section" % (os.path.relpath(path, VERIF), i, line.strip()))
    return hits


def strip_coq_comments(text):
    out = []
    depth = 0
    i = 0
    n = len(text)
    instr = False
    while i < n:
        if depth == 0 and text[i] == '"':
            instr = not instr
            out.append(text[i])
            i += 1
        elif not instr and text.startswith("(*", i):
            depth += 1
            i += 2
        elif not instr and depth > 0 and text.startswith("*)", i):
            depth -= 1
            i += 2
        else:
            if depth == 0:
                out.append(text[i])
            elif text[i] == "\n":
                out.append("\n")
            i += 1
    return "".join(out)


def props_theorems(prop_id):
    """names of the Theorems stated in Props/<id>.v"""
    path = os.path.join(COQ, "Props", prop_id + ".v")
    text = strip_coq_comments(open(path).read())
    return re.findall(r"^\s*Theorem\s+(\w+)", text, re.M)


def coq_assumptions(prop_id, theorems):
    """Print Assumptions for every theorem of the property, through a throw-away file that only
    Requires the compiled Props file. Returns {theorem: 'closed' | [axioms...]} or raises."""
    d = os.path.join(BUILD, prop_id)
    os.makedirs(d, exist_ok=True)
    path = os.path.join(d, "Audit_%s.v" % prop_id)
    with open(path, "w") as f:
        f.write("From EZK Require Import Props.%s.\n" % prop_id)
        for t in theorems:
            f.write('Goal True. idtac "@@ %s". Abort.\nPrint Assumptions %s.\n' % (t, t))
    rc, out = sh(["coqc", "-q", "-Q", COQ, "EZK", path], cwd=d, timeout=300)
    res = {}
    if rc != 0:
        return None, out
    cur = None
    for line in out.split("\n"):
        m = re.match(r"@@ (\w+)", line)
        if m:
            cur = m.group(1)
            res[cur] = []
            continue
        if cur is None:
            continue
        if "Closed under the global context" in line:
            res[cur] = "closed"
        elif line.startswith("Axioms:") or not line.strip():
            continue
        elif isinstance(res[cur], list):
            m2 = re.match(r"(\S+)\s*:", line)
            if m2:
                res[cur].append(m2.group(1))
    return res, out


# ----------------------------------------------------------------------------------------------
# OCaml driver (extracted model + util + per-property driver, concatenated)
# ----------------------------------------------------------------------------------------------
def build_driver(prop_id, gen=None):
    p = prop_id.lower()
    parts = [os.path.join(OCAML, "gen", (gen or p) + ".ml"), os.path.join(OCAML, "util.ml"),
             os.path.join(OCAML, p + "_driver.ml")]
    for x in parts:
        if not os.path.exists(x):
            return False, "missing " + x
    d = os.path.join(BUILD, "ocaml")
    os.makedirs(d, exist_ok=True)
    src = "".join(open(x).read() + "\n" for x in parts)
    h = hashlib.sha256(src.encode()).hexdigest()
    exe = os.path.join(d, p + "_driver")
    stamp = exe + ".sha"
    if os.path.exists(exe) and os.path.exists(stamp) and open(stamp).read() == h:
        return True, "cached"
    main = os.path.join(d, p + "_main.ml")
    open(main, "w").write(src)
    rc, out = sh(["ocamlfind", "ocamlopt", "-O2", "-w", "-a", main, "-o", exe], cwd=d, timeout=600)
    if rc == 0:
        open(stamp, "w").write(h)
    return rc == 0, out


def run_driver(prop_id, cases_path, timeout=1800):
    exe = os.path.join(BUILD, "ocaml", prop_id.lower() + "_driver")
    rc, out = sh("ulimit -s unlimited 2>/dev/null; exec %s %s" % (exe, cases_path), timeout=timeout)
    return rc, parse_results(out), out


# ----------------------------------------------------------------------------------------------
# Rust harness (rebuilt from /repo's working tree with the hooks on)
# ----------------------------------------------------------------------------------------------
def build_harness(release=False, timeout=1500):
    lock = os.path.join(HARNESS, "Cargo.lock")
    if not os.path.exists(lock) and os.path.exists(os.path.join(REPO, "Cargo.lock")):
        import shutil
        shutil.copy(os.path.join(REPO, "Cargo.lock"), lock)
    cmd = ["cargo", "build", "--offline", "--quiet"] + (["--release"] if release else [])
    rc, out = sh(cmd, cwd=HARNESS, timeout=timeout)
    errs = "\n".join(l for l in out.split("\n") if l.startswith("error") or "-->" in l)
    return rc == 0, (errs if rc != 0 else "")[:4000] + ("" if rc == 0 else "\n" + out[-3000:])


def run_harness(prop_id, cases_path, release=False, timeout=1800, args=()):
    exe = os.path.join(HARNESS, "target", "release" if release else "debug", "ezk_harness")
    rc, out = sh([exe, prop_id.lower(), cases_path] + list(args), timeout=timeout)
    return rc, parse_results(out), out


def parse_results(out):
    res = {}
    for line in out.split("\n"):
        if "\t" in line:
            k, v = line.split("\t", 1)
            res[k] = v
    return res


def write_cases(path, cases):
    os.makedirs(os.path.dirname(path), exist_ok=True)
    with open(path, "w") as f:
        for c in cases:
            f.write("\t".join(str(x) for x in c) + "\n")


# ----------------------------------------------------------------------------------------------
# known findings
# ----------------------------------------------------------------------------------------------
def load_known_findings(prop_id):
    path = os.path.join(VERIF, "known_findings.json")
    if not os.path.exists(path):
        return []
    data = json.load(open(path))
    return [f for f in data.get("findings", []) if f.get("property") == prop_id and f.get("status") == "known"]


# ----------------------------------------------------------------------------------------------
# evidence
# ----------------------------------------------------------------------------------------------
def write_evidence(prop_id, ev):
    os.makedirs(os.path.join(VERIF, "evidence"), exist_ok=True)
    path = os.path.join(VERIF, "evidence", prop_id + ".json")
    with open(path, "w") as f:
        json.dump(ev, f, indent=1, sort_keys=True)
        f.write("\n")
    return path


def write_replay(prop_id, seed, payload):
    d = os.path.join(VERIF, "replays")
    os.makedirs(d, exist_ok=True)
    path = os.path.join(d, "%s_seed%s.json" % (prop_id, seed))
    with open(path, "w") as f:
        json.dump(payload, f, indent=1)
        f.write("\n")
    return path


def hexs(b):
    if isinstance(b, str):
        b = b.encode("utf-8")
    return b.hex()
