#!/bin/sh
# tools/all_refactorings.sh -- apply every stored behaviour-preserving change in turn, run the quick checks of the properties it touches, expect OK
cd /verif
for d in refactorings/*/; do
  id=$(basename $d); p=$(echo $id | cut -d- -f1)
  extra=""
  case $p in C04) extra="C05 C06 C07 C16";; C16) extra="C04 C08 C10";; C13) extra="C07 C05";; C08) extra="C10 C04 C09";; C02) extra="C03";; C03) extra="C02";; C10) extra="C08";; C14) extra="C15 C09";; C15) extra="C14 C16";; C09) extra="C01";; C20) extra="C16";; C12) extra="C08";; C05) extra="C07";; C06) extra="C04";; C17) extra="C02";; esac
  res=$(tools/try_refactor.sh $d/patch.diff $p $extra 2>&1 | grep -E "VIOLATION|does not apply")
  if [ -z "$res" ]; then echo "QUIET $id ($p $extra)"; else echo "ALARM $id $res"; fi
done
git -C /repo status --short | head -3
