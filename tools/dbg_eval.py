#!/usr/bin/env python3
"""tools/dbg_eval.py <Cxx> [tag] -- re-evaluate build/<Cxx>/cases_<tag>.tsv: all oracle violations and disagreements (debug aid)"""
import sys, os, collections
sys.path.insert(0, os.path.dirname(os.path.abspath(__file__)))
import common as C, check
pid = sys.argv[1].upper(); tag = sys.argv[2] if len(sys.argv) > 2 else "main"
P = check.load_plugin(pid)
path = os.path.join(C.BUILD, pid, "cases_%s.tsv" % tag)
cases = [l.rstrip("\n").split("\t") for l in open(path) if l.strip()]
_, impl, _ = C.run_harness(pid, path, timeout=3000)
mpath = path
if hasattr(P, "model_case"):
    mpath = os.path.join(C.BUILD, pid, "cases_%s_model.tsv" % tag)
_, model, _ = C.run_driver(pid, mpath)
res = check.evaluate(P, cases, impl, model, C.load_known_findings(pid), True)
cnt = collections.Counter()
for c, io, why in res["violations"]:
    cnt[why[:110]] += 1
for k, v in cnt.most_common(40):
    print("V %4d %s" % (v, k))
print("disagree", len(res["disagree"]))
for c, io, mo in res["disagree"][:15]:
    print("D", c[0], "| impl:", (io or "")[:150], "| model:", (mo or "")[:150])
