#!/bin/sh
# tools/seed_round.sh <worktree> <seed-id> <property> <demo-cmd>  -- confirm a seed, run the property's quick check on it, remove the worktree
wt="$1"; id="$2"; prop="$3"; cmd="$4"
/verif/tools/confirm_seed.sh "$wt" "$id" "$prop" "$cmd" 2>&1 | tail -12
git -C /repo worktree remove --force "$wt"
echo "== check on the seeded tree"
/verif/tools/try_mutant.sh /verif/seeded/$id/patch.diff $prop 2>&1 | tail -6
