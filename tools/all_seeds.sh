#!/bin/sh
# tools/all_seeds.sh -- apply every stored seeded change in turn, run its property's quick check, expect a VIOLATION
cd /verif
for d in seeded/*/; do
  id=$(basename $d)
  prop=$(python3 -c "import json;print(json.load(open('$d/meta.json'))['property'])")
  res=$(tools/try_mutant.sh $d/patch.diff $prop 2>&1 | grep -v KNOWN-FINDING | tail -1)
  case "$res" in
    VIOLATION*) echo "DETECTED $id $res" ;;
    *) echo "MISSED   $id $res" ;;
  esac
done
git -C /repo status --short | head -3
