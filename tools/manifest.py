#!/usr/bin/env python3
"""Regenerates MANIFEST.json from the per-property plugins (tools/props/cXX.py: CLAIM_TEXT, CLAIM_NOTE)."""
import importlib
import json
import os
import sys

HERE = os.path.dirname(os.path.abspath(__file__))
VERIF = os.path.dirname(HERE)
sys.path.insert(0, HERE)

NOT_YET = {}

props = [json.loads(l) for l in open(os.path.join(VERIF, "properties.jsonl"))]
claimed = []
for p in props:
    pid = p["id"]
    path = os.path.join(HERE, "props", pid.lower() + ".py")
    if os.path.exists(path):
        claimed.append(pid)

m = {
    "version": 1,
    "setup_cmd": "bin/setup",
    "hooks": {
        "guard": "cargo feature ezk-verif (crates ezk-sip-core, ezk-sip-ua, ezk-stun)",
        "enable": "the harness crate /verif/harness depends on the /repo crates by path with features=[\"ezk-verif\"]; cargo build --offline in /verif/harness (rustflags --cfg tokio_unstable from harness/.cargo/config.toml)",
        "baseline_off_cmd": "cd /repo && cargo test --workspace --no-fail-fast --offline",
        "source_commits": ["97161ed", "9600ab2", "8b26cbd", "e4c9a34"],
        "add_only": False,
    },
    "engines": [{
        "name": "rocq-proof+correspondence", "path": "bin/check", "serves_properties": claimed,
        "kind_free_text": "Coq 8.16.1 theorems over an executable Gallina model (coq/), tied to the code on every run by tables regenerated from the Rust source (tools/translate.py) and a differential correspondence run of the extracted model (ocaml/) against the real crates (harness/), plus an implementation oracle written from the property text",
    }],
    "checks": [],
    "notes": "see DESIGN.md; known_findings.json lists recorded (known) and repaired (fixed) defects",
    "not_applicable": [],
}
import re


def decision_point_theorems(pid):
    """theorems of coq/Props/<pid>.v that speak about a form flag of Gen/Tables.v (sections *forms*) or a form-indexed definition"""
    tables = open(os.path.join(VERIF, "coq", "Gen", "Tables.v")).read()
    flags = set()
    for sec in re.findall(r"\(\* @@section (\w*forms\w*) \*\)(.*?)\(\* @@end", tables, re.S):
        flags.update(re.findall(r"Definition (\w+) :", sec[1]))
    path = os.path.join(VERIF, "coq", "Props", pid + ".v")
    if not os.path.exists(path):
        return []
    out = []
    for name, stmt in re.findall(r"Theorem (\w+)\s*:(.*?)Proof\.", open(path).read(), re.S):
        if "_form " in stmt or any(re.search(r"\b%s\b" % f, stmt) for f in flags):
            out.append(name)
    return out


for pid in claimed:
    P = importlib.import_module("props." + pid.lower())
    dp = decision_point_theorems(pid)
    claim = P.CLAIM_TEXT
    if dp:
        claim += (" Decision points of the source made explicit (Model/Forms8-10.v and the per-property models; each with a flag the translator "
                  "regenerates on every run, a theorem under the flag and a refutation of the other form): " + ", ".join(dp) + ".")
    m["checks"].append({
        "property_id": pid,
        "quick_cmd": "bin/check %s quick" % pid,
        "thorough_cmd": "bin/check %s thorough" % pid,
        "evidence_file": "evidence/%s.json" % pid,
        "replay_cmd_template": "bin/check %s quick --replay {path}" % pid,
        "engine": "rocq-proof+correspondence",
        "level_claimed": {"category": "proof", "text": claim, "design_ref": "DESIGN.md section 5 (%s)" % pid},
        "level_note": P.CLAIM_NOTE,
        "technique": "machine-checked proof in Rocq (Coq 8.16.1) over an executable Gallina model + translator-regenerated constants + differential correspondence check against the Rust crates",
    })
for p in props:
    if p["id"] not in claimed:
        m["not_applicable"].append({"property_id": p["id"], "reason": NOT_YET.get(p["id"], "not built yet (model, theorems and correspondence are planned in DESIGN.md section 5); no claim is made for it")})
json.dump(m, open(os.path.join(VERIF, "MANIFEST.json"), "w"), indent=1)
print("claimed:", " ".join(claimed))
