"""Translator: regenerates coq/Gen/Tables.v from /repo's current source on every run.

Every extracted item has an assertion; failing to locate one raises (reported as a broken tie).
The file is only rewritten when its content changes so that make stays incremental."""
import os
import re

REPO = "/repo"
VERIF = os.path.dirname(os.path.dirname(os.path.abspath(__file__)))
OUT = os.path.join(VERIF, "coq", "Gen", "Tables.v")


# names the extraction patterns look for themselves: never inlined
_KEEP = {"T1", "T2", "T4", "RFC3261_BRANCH_PREFIX", "COOKIE", "NAMES", "CHARSET"}
_SIMPLE = r"(?:-?\d[\d_]*(?:u8|u16|u32|u64|usize|i32|i64)?|0x[0-9a-fA-F_]+(?:u8|u16|u32|u64|usize)?|Duration::from_(?:secs|millis)\(\d[\d_]*\)|u16::MAX as usize|u32::MAX|\"[^\"\n]*\")"
_CONSTS = None


def _const_table():
    """`const NAME: T = <simple literal>;` of every crate source file (a maintainer hoisting a literal into a named constant does
    not change what the code says): name -> literal, only for names that have one value across the tree"""
    global _CONSTS
    if _CONSTS is not None:
        return _CONSTS
    vals = {}
    for root, _, files in os.walk(os.path.join(REPO, "crates")):
        if "/target" in root:
            continue
        for f in files:
            if not f.endswith(".rs"):
                continue
            try:
                text = open(os.path.join(root, f)).read()
            except OSError:
                continue
            for m in re.finditer(r"\bconst\s+([A-Z][A-Z0-9_]*)\s*:\s*[^=;]+=\s*(" + _SIMPLE + r")\s*;", text):
                vals.setdefault(m.group(1), set()).add(m.group(2))
    _CONSTS = {k: v.pop() for k, v in vals.items() if len(v) == 1 and k not in _KEEP}
    return _CONSTS


def inline_consts(text):
    table = _const_table()
    if not table:
        return text
    names = sorted(table, key=len, reverse=True)
    pat = re.compile(r"(?<![\w])(?:Self::|self::|super::|crate::(?:\w+::)*)?(" + "|".join(map(re.escape, names)) + r")\b(?!\s*:)")

    def rep(m):
        return table[m.group(1)]
    out = []
    for line in text.split("\n"):
        if re.search(r"\bconst\s+[A-Z][A-Z0-9_]*\s*:", line):
            out.append(line)          # the declaration itself stays
        else:
            out.append(pat.sub(rep, line))
    return "\n".join(out)


def src(rel):
    return inline_consts(open(os.path.join(REPO, rel)).read())


def must(m, what):
    if not m:
        raise RuntimeError("translator: cannot locate " + what)
    return m


def duration_ms(expr, what):
    m = re.match(r"Duration::from_millis\((\d+)\)", expr)
    if m:
        return int(m.group(1))
    m = re.match(r"Duration::from_secs\((\d+)\)", expr)
    if m:
        return int(m.group(1)) * 1000
    raise RuntimeError("translator: cannot read duration %s (%s)" % (expr, what))


def coq_bytes(s):
    return "[" + "; ".join('"%s"%%byte' % _bchar(c) for c in s.encode("utf-8")) + "]"


def _bchar(c):
    return "x%02x" % c


def coq_byte_list(b):
    return "[" + "; ".join("x%02x" % c for c in b) + "]"


FAILED = {}          # section -> error text of the last run


def _tsx(w, src, must):
    # ---- transaction constants -------------------------------------------------------------
    t = src("crates/sip-core/src/transaction/mod.rs")
    if os.path.exists(os.path.join(REPO, "crates/sip-core/src/transaction/consts.rs")):
        # `pub mod consts { .. }` may live in a file of its own
        t += src("crates/sip-core/src/transaction/consts.rs")
    for name in ("T1", "T2", "T4"):
        m = must(re.search(r"pub const %s: Duration = ([^;]+);" % name, t), name)
        w("Definition %s_ms : N := %d." % (name, duration_ms(m.group(1).strip(), name)))
    m = must(re.search(r'pub const RFC3261_BRANCH_PREFIX: &str = "([^"]+)";', t), "branch prefix")
    w("Definition branch_cookie : list byte := %s." % coq_byte_list(m.group(1).encode()))
    # deadline factor: every transaction computes `Instant::now() + T1 * <k>`
    factors = set()
    for f in ("client", "client_inv", "server", "server_inv"):
        body = src("crates/sip-core/src/transaction/%s.rs" % f)
        found = re.findall(r"Instant::now\(\)\s*\+\s*T1\s*\*\s*(\d+)", body)
        must(found, "T1 * k deadline in %s.rs" % f)
        factors.update(int(x) for x in found)
    if len(factors) != 1:
        raise RuntimeError("translator: transactions disagree on the timeout factor: %r" % sorted(factors))
    w("Definition tsx_timeout_factor : N := %d." % factors.pop())
    ci = src("crates/sip-core/src/transaction/client_inv.rs")
    m = must(re.search(r"let \w+ = Instant::now\(\)\s*\+\s*(Duration::from_secs\(\d+\)|Duration::from_millis\(\d+\))", ci), "INVITE client completed-state lifetime")
    w("Definition inv_completed_ms : N := %d." % duration_ms(m.group(1), "inv completed"))
    w("")


def _old_section(name):
    if not os.path.exists(OUT):
        return None
    old = open(OUT).read()
    a, b = "(* @@section %s *)\n" % name, "(* @@end %s *)\n" % name
    if a in old and b in old:
        return old[old.index(a) + len(a):old.index(b)]
    return None


def old_flag(name):
    """value of a boolean definition in the Gen/Tables.v of the last successful regeneration"""
    if not os.path.exists(OUT):
        return None
    m = re.search(r"^Definition %s : bool := (true|false)\.$" % re.escape(name), open(OUT).read(), re.M)
    return None if m is None else m.group(1) == "true"


def gen():
    """every section is regenerated on its own; a section whose source forms can no longer be located keeps the text of the last
    successful regeneration and is reported in FAILED (the properties that use it then rest on the correspondence run alone)"""
    import translate_tables
    global _CONSTS
    _CONSTS = None
    FAILED.clear()
    del translate_tables.UNLOCATED[:]
    out = []
    out.append("(* GENERATED by tools/translate.py from /repo -- do not edit. *)")
    out.append("From Coq Require Import List NArith.")
    out.append("From Coq.Strings Require Import Byte.")
    out.append("Import ListNotations.")
    out.append("Open Scope N_scope.")
    out.append("")
    sections = [("tsx", _tsx)] + translate_tables.SECTIONS
    for name, fn in sections:
        lines = []
        try:
            fn(lines.append, src, must)
            body = "\n".join(lines) + "\n"
        except Exception as e:      # noqa: a form that can no longer be located
            FAILED[name] = repr(e)
            body = _old_section(name)
            if body is None:
                raise
        out.append("(* @@section %s *)" % name)
        out.append(body.rstrip("\n"))
        out.append("(* @@end %s *)" % name)
    return "\n".join(out) + "\n"


def run():
    text = gen()
    os.makedirs(os.path.dirname(OUT), exist_ok=True)
    old = open(OUT).read() if os.path.exists(OUT) else None
    if old != text:
        open(OUT, "w").write(text)
        return True
    return False


if __name__ == "__main__":
    print("changed" if run() else "unchanged")
