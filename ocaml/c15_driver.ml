(* driver for C15: same case and observation format as harness/src/c15.rs *)
let () =
  for_each_case Sys.argv.(1) (fun f ->
    let s = ref (if f.(2) = "in" then init_incoming else init_outgoing) in
    let incoming = f.(2) = "in" in
    let peer_open = ref true in
    let groups = List.filter (fun g -> g <> "") (split_on ';' f.(3)) in
    let outs = List.map (fun g ->
      let evs = List.map (fun e -> match split_on ':' e with
        | ["clone"] -> Clone | ["drop"] -> DropH | ["select"] -> Select | ["frame"] -> Frame
        | ["close"] -> peer_open := false; Close | ["garbage"] -> Garbage
        | ["adv"; ms] -> Advance (n_of_decimal ms)
        | _ -> failwith "bad event") (split_on ',' g) in
      let (s', sel) = run_group !s evs in
      s := s';
      let m = (if present s' then 1 else 0) in
      let closed = if not !peer_open then "x"
        else if s'.tsk = TExited && int_of_nat s'.refs = 0 && int_of_nat s'.transient = 0 then "1" else "0" in
      let selstr = String.concat "" (List.filter_map (function
        | Some true -> Some (if incoming then "N" else "R") | Some false -> Some "N" | None -> None) sel) in
      Printf.sprintf "m=%d d=%d c=%s sel=%s%s" m (int_of_nat s'.delivered) closed selstr
        (if s'.panicked then " MODEL-PANIC" else "")) groups in
    String.concat ";" outs)
