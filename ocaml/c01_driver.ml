(* driver for C01: uri and meth cases through the extracted model; other kinds have no model output *)
let unhx s = if s = "''" then [] else bytes_of_hex s
let hx (b : byte list) = if b = [] then "''" else hex_of_bytes b
let nonempty l = List.filter (fun s -> s <> "") l

let params_of spec =
  List.map (fun e -> match String.index_opt e '=' with
    | Some i -> { pm_name = unhx (String.sub e 0 i); pm_value = Some (unhx (String.sub e (i + 1) (String.length e - i - 1))) }
    | None -> { pm_name = unhx e; pm_value = None }) (nonempty (split_on ';' spec))

let dump_params ps =
  String.concat ";" (List.map (fun p -> match p.pm_value with Some v -> hx p.pm_name ^ "=" ^ hx v | None -> hx p.pm_name) ps)

let ctx_of = function
  | "requri" -> CReqUri | "fromto" -> CFromTo | "contact" -> CContact | "contactreg" -> CContactRegister | "routing" -> CRouting | _ -> CNone

let is_prefix (p : byte list) (s : byte list) =
  let rec go a b = match a, b with [], _ -> true | x :: a', y :: b' -> x = y && go a' b' | _ :: _, [] -> false in go p s

let () =
  for_each_case Sys.argv.(1) (fun f ->
    match f.(2) with
    | "uri" ->
      let a = Array.of_list (split_on '|' f.(3)) in
      let host = bytes_of_string a.(3) in
      let u = { u_sips = (a.(0) = "1"); u_user = (if a.(1) = "-" then None else Some (unhx a.(1)));
                u_pw = (if a.(2) = "-" then None else Some (unhx a.(2))); u_host = host;
                u_port = (if a.(4) = "-" then None else Some (n_of_decimal a.(4)));
                u_params = params_of a.(5); u_headers = params_of a.(6) } in
      let c = ctx_of f.(4) in
      let t1 = print_uri c u in
      let host_len s = if is_prefix host s then Some (nat_of_int (List.length host)) else None in
      let dump (v : uri) = String.concat "|" [ (if v.u_sips then "1" else "0");
        (match v.u_user with Some x -> hx x | None -> "-"); (match v.u_pw with Some x -> hx x | None -> "-");
        string_of_bytes v.u_host; (match v.u_port with Some p -> decimal_of_n p | None -> "-");
        dump_params v.u_params; dump_params v.u_headers ] in
      (match parse_uri host_len t1 with
       | Some (v, []) -> "T1=" ^ hex_of_bytes t1 ^ "\tD1=" ^ dump v ^ "\tT2=" ^ hex_of_bytes (print_uri c v)
       | Some (_, _) -> "T1=" ^ hex_of_bytes t1 ^ "\tD1=TRAILING"
       | None -> "T1=" ^ hex_of_bytes t1 ^ "\tD1=ERR")
    | "host" ->
      (match parse_host4 (bytes_of_hex f.(3)) with
       | IsIP4 (a, b, c, d, _) -> Printf.sprintf "IP4:%s.%s.%s.%s" (decimal_of_n a) (decimal_of_n b) (decimal_of_n c) (decimal_of_n d)
       | NotIP4 -> "OTHER")
    | "meth" ->
      let tok = unhx f.(3) in
      let m = method_of tok in
      let kof m = (match m with MKnown i -> string_of_int (int_of_nat i) | MOther _ -> "-") in
      (* the printed token parsed back by Method::parse in front of a blank (request line) and at the end of a value (CSeq, RAck) *)
      let back rest = (match method_parse (method_name m @ rest) with
        | Some (m', _) -> hex_of_bytes (method_name m') ^ "/" ^ kof m'
        | None -> "ERR") in
      "P=" ^ hex_of_bytes (method_name m) ^ "\tK=" ^ kof m ^ "\tR=" ^ back (bytes_of_string " sip:bob@example.org SIP/2.0") ^ "," ^ back [] ^ "," ^ back []
    | "na" ->
      (* kind | display (hex or -) | uri ... : the quoted display name as the model prints it, and what its parser reads back *)
      let a = Array.of_list (split_on '|' f.(3)) in
      if Array.length a < 2 || a.(1) = "-" then "Q=-" else
      let name = unhx a.(1) in
      let q = print_display name in
      (match parse_display (q @ bytes_of_string "<sip:x>") with
       | Some (n, _) -> "Q=" ^ hex_of_bytes q ^ "\tN=" ^ hx n
       | None -> "Q=" ^ hex_of_bytes q ^ "\tN=ERR")
    | "msg" ->
      let a = Array.of_list (split_on '|' f.(3)) in
      let line = unhx a.(0) in
      let es = List.fold_left (fun acc e -> match String.index_opt e '=' with
        | Some i -> h_insert (hname_of (unhx (String.sub e 0 i))) (unhx (String.sub e (i + 1) (String.length e - i - 1))) acc
        | None -> h_insert (hname_of (unhx e)) [] acc) [] (nonempty (split_on ';' (if Array.length a > 1 then a.(1) else ""))) in
      let body = if Array.length a > 2 then bytes_of_hex a.(2) else [] in
      let t = encode_message line es body in
      (match parse_message t with
       | Some ((l, hs), b) ->
         "T=" ^ hex_of_bytes t ^ "\tL=" ^ hx l ^ "\tH=" ^ String.concat ";" (List.map (fun (n, v) -> hx (hname_print n) ^ "=" ^ hx v) (h_iter hs)) ^ "\tB=" ^ hex_of_bytes b
       | None -> "T=" ^ hex_of_bytes t ^ "\tUNPARSED")
    | _ -> "-")
