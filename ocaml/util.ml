(* util.ml -- hand-written glue shared by all drivers; concatenated after the extracted model,
   so it sees the extracted types [n], [positive], [nat], [byte] and the functions [n2b], [b2n]. *)

(* ---- arbitrary-size decimal <-> N (no zarith here) ---- *)
let n_of_decimal (s : string) : n =
  (* digits as int array, repeated division by 2 *)
  let digits = Array.init (String.length s) (fun i -> Char.code s.[i] - 48) in
  Array.iter (fun d -> if d < 0 || d > 9 then failwith ("bad decimal: " ^ s)) digits;
  let is_zero () = Array.for_all (fun d -> d = 0) digits in
  let div2 () =
    let carry = ref 0 in
    for i = 0 to Array.length digits - 1 do
      let cur = !carry * 10 + digits.(i) in
      digits.(i) <- cur / 2;
      carry := cur mod 2
    done;
    !carry in
  (* collect bits LSB first *)
  let rec bits acc = if is_zero () then List.rev acc else let b = div2 () in bits (b :: acc) in
  let bs = bits [] in
  (* build positive from LSB-first bits *)
  let rec build = function
    | [] -> None
    | b :: rest ->
      (match build rest with
       | None -> if b = 1 then Some XH else None
       | Some p -> Some (if b = 1 then XI p else XO p)) in
  match build bs with None -> N0 | Some p -> Npos p

let decimal_of_n (x : n) : string =
  match x with
  | N0 -> "0"
  | Npos p ->
    (* bits MSB first *)
    let rec msb p acc = match p with XH -> 1 :: acc | XO q -> msb q (0 :: acc) | XI q -> msb q (1 :: acc) in
    let bits = msb p [] in
    let digits = ref [0] in (* little endian decimal *)
    let double_add b =
      let carry = ref b in
      digits := List.map (fun d -> let v = d * 2 + !carry in carry := v / 10; v mod 10) !digits;
      if !carry > 0 then digits := !digits @ [!carry] in
    List.iter double_add bits;
    String.concat "" (List.rev_map string_of_int !digits)

let n_of_int (i : int) : n = n_of_decimal (string_of_int i)
let int_of_n (x : n) : int = int_of_string (decimal_of_n x)

let rec nat_of_int (i : int) : nat = if i <= 0 then O else S (nat_of_int (i - 1))
let rec int_of_nat (x : nat) : int = match x with O -> 0 | S y -> 1 + int_of_nat y

(* ---- bytes ---- *)
let byte_table : byte array = Array.init 256 (fun i -> n2b (n_of_int i))
let int_table : (byte, int) Hashtbl.t =
  let h = Hashtbl.create 256 in Array.iteri (fun i b -> Hashtbl.replace h b i) byte_table; h
let byte_of_int i = byte_table.(i land 255)
let int_of_byte b = Hashtbl.find int_table b

let bytes_of_string (s : string) : byte list =
  List.init (String.length s) (fun i -> byte_of_int (Char.code s.[i]))
let string_of_bytes (l : byte list) : string =
  let b = Buffer.create 64 in List.iter (fun x -> Buffer.add_char b (Char.chr (int_of_byte x))) l; Buffer.contents b

let hexval c = match c with
  | '0'..'9' -> Char.code c - 48 | 'a'..'f' -> Char.code c - 87 | 'A'..'F' -> Char.code c - 55
  | _ -> failwith "bad hex"
let bytes_of_hex (s : string) : byte list =
  List.init (String.length s / 2) (fun i -> byte_of_int (hexval s.[2*i] * 16 + hexval s.[2*i+1]))
let hex_of_bytes (l : byte list) : string =
  String.concat "" (List.map (fun b -> Printf.sprintf "%02x" (int_of_byte b)) l)

(* ---- case IO ---- *)
let split_on c s = String.split_on_char c s
let read_lines path =
  let ic = open_in path in
  let rec go acc = match input_line ic with
    | l -> go (if l = "" then acc else l :: acc)
    | exception End_of_file -> close_in ic; List.rev acc in
  go []
let for_each_case path f =
  List.iter (fun l ->
    let fields = Array.of_list (split_on '\t' l) in
    let out = try f fields with e -> "MODEL-EXN " ^ Printexc.to_string e in
    print_string fields.(0); print_char '\t'; print_endline out) (read_lines path)
