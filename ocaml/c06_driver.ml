(* driver for C06: same observation format as harness/src/tsx_server.rs (S/D/T tokens) *)
let show_out horizon o =
  let t x = decimal_of_n x in
  let within x = int_of_n x <= horizon in
  match o with
  | Send x -> if within x then Some ("S@" ^ t x) else None
  | TimedOut x -> if within x then Some ("T@" ^ t x) else None
  | Done x -> if within x then Some ("D@" ^ t x) else None
  | OutOfFuel -> Some "OUT-OF-FUEL"
  | _ -> Some "?"

let () =
  for_each_case Sys.argv.(1) (fun f ->
    let reliable = f.(3) = "1" in
    let t0 = n_of_decimal f.(5) in
    let evs = List.filter (fun s -> s <> "") (split_on ',' f.(6)) in
    let evs = List.map (fun s ->
      match split_on ':' s with
      | t :: "R" :: _ -> (n_of_decimal t, ReqRetrans)
      | t :: "A" :: _ -> (n_of_decimal t, AckIn)
      | t :: _ -> (n_of_decimal t, OtherIn)
      | _ -> failwith "bad event") evs in
    let horizon = int_of_string f.(7) in
    let outs = if f.(2) = "inv" then server_invite_failure true reliable t0 evs
               else server_noninvite true reliable t0 (List.filter (fun (_, e) -> e <> AckIn) evs) in
    String.concat " " (List.filter_map (show_out horizon) outs))
