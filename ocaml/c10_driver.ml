(* driver for C10: same case format and observation format as harness/src/c10.rs *)
let sym s = bytes_of_string s
let osym s = if s = "-" then None else Some (sym s)

let () =
  for_each_case Sys.argv.(1) (fun f ->
    let setup = split_on ',' f.(2) in
    (* "F": a further fork of the previous caller-side dialog: same Call-ID and local tag, its own peer tag *)
    let owner = Array.make (List.length setup) 0 in
    List.iteri (fun i d -> owner.(i) <- (if String.length d > 0 && d.[0] = 'F' && i > 0 then owner.(i - 1) else i)) setup;
    let entries = List.mapi (fun i d ->
      let p = Array.of_list (split_on ':' d) in
      let st, nus =
        if p.(0) = "S" then entry_new (Some (n_of_decimal p.(1))), int_of_string p.(2)
        else entry_new None, int_of_string p.(1) in
      { e_key = { k_call_id = sym (Printf.sprintf "c%d" owner.(i));
                  k_peer_tag = Some (sym (Printf.sprintf "p%d" i));
                  k_local_tag = sym (Printf.sprintf "l%d" owner.(i)) };
        e_st = st;
        e_usages = List.init nus (fun u -> n_of_int (i * 10 + u)) }) setup in
    let key_of i = (List.nth entries i).e_key in
    let ids = Hashtbl.create 16 in
    let next_id = ref 0 in
    let events = List.filter (fun e -> e <> "") (split_on ',' f.(3)) in
    let nus = Array.of_list (List.map (fun e -> List.length e.e_usages) entries) in
    let evs = List.map (fun e ->
      let p = Array.of_list (split_on ':' e) in
      match p.(0) with
      | "R" ->
        incr next_id; Hashtbl.replace ids !next_id p.(5);
        Recv (sym p.(1), osym p.(2), osym p.(3),
              { r_cseq = n_of_decimal p.(4); r_id = n_of_int !next_id; r_ack = (p.(6) = "1") })
      | "D" -> DropUsage (key_of (int_of_string p.(1)), n_of_int (int_of_string p.(1) * 10 + int_of_string p.(2)))
      | "K" -> DropUsage (key_of 0, n_of_int 9999)      (* register_usage for a dialog that does not exist: nothing happens *)
      | "U" -> let d = int_of_string p.(1) in let u = nus.(d) in nus.(d) <- u + 1; AddUsage (key_of d, n_of_int (d * 10 + u))
      | _ -> failwith "bad event") events in
    let (final, outs) = layer_run entries evs in
    let dialog_index k =
      let rec go i = function [] -> -1 | e :: r -> if dkey_eqb e.e_key k then i else go (i+1) r in go 0 entries in
    let show ev o = match ev, o with
      | DropUsage _, _ -> "-"
      | AddUsage _, _ -> "-"
      | _, NotIntercepted -> "N"
      | _, Held -> "H"
      | _, Delivered (k, us, reqs) ->
        let us = List.sort compare (List.map (fun u -> string_of_int (int_of_n u mod 10)) us) in
        Printf.sprintf "V:%d:%s:%s" (dialog_index k) (String.concat "+" us)
          (String.concat " " (List.map (fun (c, id) -> decimal_of_n c ^ "/" ^ Hashtbl.find ids (int_of_n id)) reqs)) in
    let parts = List.map2 show evs outs in
    let nb = List.fold_left (fun a e -> a + List.length e.e_st.backlog) 0 final in
    String.concat ";" (parts @ [Printf.sprintf "B=%d/%d" (List.length final) nb]))
