(* driver for C05 (and C07 schedule part): same observation format as harness/src/tsx_client.rs *)
(* 1xx provisional, 2xx success, everything else (3xx-6xx and extension codes outside 100..699) ends the transaction like a failure *)
let cls_of_code c = if c >= 100 && c < 200 then Prov else if c >= 200 && c < 300 then Succ else Fail
let cls_letter = function Prov -> "P" | Succ -> "S" | Fail -> "F"

let show_out horizon o =
  let t x = decimal_of_n x in
  let within x = int_of_n x <= horizon in
  match o with
  | Send x -> if within x then Some ("S@" ^ t x) else None
  | AckSent x -> if within x then Some ("A@" ^ t x) else None
  | Got (x, c) -> if within x then Some ("G@" ^ t x ^ ":" ^ cls_letter c) else None
  | TimedOut x -> if within x then Some ("T@" ^ t x) else None
  | Done x -> if within x then Some ("D@" ^ t x) else None
  | OutOfFuel -> Some "OUT-OF-FUEL"

let () =
  for_each_case Sys.argv.(1) (fun f ->
    let reliable = f.(3) = "1" in
    let arrs = List.filter (fun s -> s <> "") (split_on ',' f.(4)) in
    let arrs = List.map (fun s ->
      match split_on ':' s with
      | t :: c :: _ -> (n_of_decimal t, cls_of_code (int_of_string c))
      | _ -> failwith "bad arrival") arrs in
    let horizon = int_of_string f.(5) in
    let tie = true in
    let outs = if f.(2) = "inv" then client_invite tie reliable arrs else client_noninvite tie reliable arrs in
    String.concat " " (List.filter_map (show_out horizon) outs))
