(* driver for C09: same case and observation format as harness/src/c09.rs *)
let bs = bytes_of_string
let sb = string_of_bytes

let parse_addr spec =
  (* v6flag:num:text:port ; text may contain ':' *)
  let i1 = String.index spec ':' in
  let rest = String.sub spec (i1 + 1) (String.length spec - i1 - 1) in
  let i2 = String.index rest ':' in
  let rest2 = String.sub rest (i2 + 1) (String.length rest - i2 - 1) in
  let i3 = String.rindex rest2 ':' in
  { a_v6 = (String.sub spec 0 i1 = "1");
    a_num = n_of_decimal (String.sub rest 0 i2);
    a_text = bs (String.sub rest2 0 i3);
    a_port = n_of_decimal (String.sub rest2 (i3 + 1) (String.length rest2 - i3 - 1)) }

let parse_params s =
  List.filter_map (fun p ->
    if p = "" then None else
    match String.index_opt p '=' with
    | Some i -> Some (bs (String.sub p 0 i), Some (bs (String.sub p (i + 1) (String.length p - i - 1))))
    | None -> Some (bs p, None)) (split_on ';' s)

let parse_via v =
  match split_on '|' v with
  | [tp; kind; num; text; port; params] ->
    { v_transport = bs tp;
      v_host = (match kind with
                | "4" -> HIP (false, n_of_decimal num, bs text)
                | "6" -> HIP (true, n_of_decimal num, bs text)
                | _ -> HName (bs text));
      v_port = (if port = "-" then None else Some (n_of_decimal port));
      v_params = parse_params params }
  | _ -> failwith "bad via"

let hname_str = function
  | HVia -> "Via" | HFrom -> "From" | HTo -> "To" | HCallId -> "Call-ID" | HCSeq -> "CSeq"
  | HTimestamp -> "Timestamp" | HContentLength -> "Content-Length"

let () =
  for_each_case Sys.argv.(1) (fun f ->
    let src = parse_addr f.(3) in
    let vias = List.map parse_via (String.split_on_char '~' f.(4)) in
    let code = n_of_decimal f.(5) in
    let reason = if f.(6) = "-" then None else Some (bytes_of_hex f.(6)) in
    let ts = if f.(7) = "-" then [] else List.map bytes_of_hex (split_on '|' f.(7)) in
    let preset = if f.(8) = "-" then None else Some f.(8) in
    let conn = if f.(2) = "C" then Some (parse_addr f.(9)) else None in
    let rq = { rq_vias = vias; rq_from = bs "<sip:a@example.org>;tag=ft;x=1"; rq_to = bs "<sip:b@example.org>";
               rq_call_id = bs "c09-call@host"; rq_cseq = bs "4242 OPTIONS"; rq_timestamp = ts } in
    match create_response rq src conn code reason with
    | None -> "NO-RESPONSE"
    | Some rs ->
      let hs = match preset with Some cl -> rs.rs_headers @ [(HContentLength, bs cl)] | None -> rs.rs_headers in
      let hs = finalize_headers hs N0 in
      let d = rs.rs_dest in
      let dest = if d.a_v6 then Printf.sprintf "[%s]:%s" (sb d.a_text) (decimal_of_n d.a_port)
                 else Printf.sprintf "%s:%s" (sb d.a_text) (decimal_of_n d.a_port) in
      let line = "SIP/2.0 " ^ decimal_of_n rs.rs_code ^ (match rs.rs_reason with Some r -> " " ^ sb r | None -> "") in
      String.concat "|" (["dest=" ^ dest; line] @ List.map (fun (n, v) -> hname_str n ^ ": " ^ sb v) hs @ ["body=0"]))
