(* driver for C13: fields: id c13 <responses: code:tag(- none),...> [slow] ; output one token list per response.
   With the fourth field `slow` the application reads its early dialogs only after every response has arrived: what is
   forwarded to an early dialog then goes through the channel model (Model/C13q.v), a response the channel loses reaches nobody *)
let () =
  for_each_case Sys.argv.(1) (fun f ->
    let rs = List.filter (fun s -> s <> "") (split_on ',' f.(2)) in
    let rs = List.map (fun r -> match split_on ':' r with
      | [c; t] -> (c, { rs_code = n_of_decimal c; rs_tag = (if t = "-" then None else Some (bytes_of_string t)) })
      | _ -> failwith "bad response") rs in
    let (_, acts) = run (List.map snd rs) in
    let slow = Array.length f > 3 && f.(3) = "slow" in
    let lost_idx =
      if not slow then [] else begin
        (* per early dialog: every forwarded response arrives, then the application reads as often as there were arrivals *)
        let tags = List.sort_uniq compare (List.filter_map (function ForwardToEarly (t, _) -> Some t | _ -> None) acts) in
        List.concat_map (fun tag ->
          let idx = List.filter_map (fun x -> x)
            (List.mapi (fun i a -> match a with ForwardToEarly (t, _) when t = tag -> Some (n_of_decimal (string_of_int i)) | _ -> None) acts) in
          let evs = List.map (fun i -> Arrive i) idx @ List.map (fun _ -> Read) idx in
          let c = early_chan evs in
          List.map (fun i -> int_of_string (decimal_of_n i)) c.lost) tags
      end in
    let toks = List.mapi (fun i ((c, _), a) ->
      if List.mem i lost_idx then "-" else
      match a with
      | ToCallerProvisional -> "provisional:" ^ c
      | ToCallerEarly t -> "early:" ^ string_of_bytes t ^ ":" ^ c
      | ToCallerSession t -> "session:" ^ string_of_bytes t
      | ToCallerFailure ts -> String.concat "+" (("failure:" ^ c) :: List.sort compare (List.map (fun t -> "early-terminated:" ^ string_of_bytes t) ts))
      | ForwardToEarly (t, false) -> "early-prov:" ^ string_of_bytes t ^ ":" ^ c
      | ForwardToEarly (t, true) -> "early-session:" ^ string_of_bytes t
      | Ignored -> "-"
      | Panic -> "MODEL-PANIC") (List.combine rs acts) in
    String.concat " " toks)
