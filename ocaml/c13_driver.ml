(* driver for C13: fields: id c13 <responses: code:tag(- none),...> ; output one token list per response *)
let () =
  for_each_case Sys.argv.(1) (fun f ->
    let rs = List.filter (fun s -> s <> "") (split_on ',' f.(2)) in
    let rs = List.map (fun r -> match split_on ':' r with
      | [c; t] -> (c, { rs_code = n_of_decimal c; rs_tag = (if t = "-" then None else Some (bytes_of_string t)) })
      | _ -> failwith "bad response") rs in
    let (_, acts) = run (List.map snd rs) in
    let toks = List.map2 (fun (c, _) a -> match a with
      | ToCallerProvisional -> "provisional:" ^ c
      | ToCallerEarly t -> "early:" ^ string_of_bytes t ^ ":" ^ c
      | ToCallerSession t -> "session:" ^ string_of_bytes t
      | ToCallerFailure ts -> String.concat "+" (("failure:" ^ c) :: List.sort compare (List.map (fun t -> "early-terminated:" ^ string_of_bytes t) ts))
      | ForwardToEarly (t, false) -> "early-prov:" ^ string_of_bytes t ^ ":" ^ c
      | ForwardToEarly (t, true) -> "early-session:" ^ string_of_bytes t
      | Ignored -> "-"
      | Panic -> "MODEL-PANIC") rs acts in
    String.concat " " toks)
