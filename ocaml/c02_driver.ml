(* driver for C02: dg / st / udp cases through the extracted model; other kinds have no model output *)
let show_dg debug src =
  match datagram_code dg_body_end_checked debug src with
  | DgOk (he, body) -> Printf.sprintf "OK:%d:%d" (int_of_nat he) (List.length body)
  | DgErr -> "ERR" | DgPanic -> "PANIC"

let () =
  for_each_case Sys.argv.(1) (fun f ->
    match f.(2) with
    | "dg" ->
      let src = bytes_of_hex f.(3) in
      (match handle_packet dg_body_end_checked true src with
       | KeepAlive -> "KA"
       | _ ->
         let d = show_dg true src and r = show_dg false src in
         if d = r then d else d ^ "/release:" ^ r)
    | "st" ->
      let chunks = List.map bytes_of_hex (List.filter (fun s -> s <> "") (split_on '|' f.(3))) in
      let show = function
        | IFrame (fr, _, cl) ->
          (* head end and body as the decoder's second pass computes them (Model/C02.v second_pass) *)
          (match second_pass stream_body_len_saved fr cl with
           | SpOk (he2, body) -> Printf.sprintf "F:%d:%d:%d" (List.length fr) (int_of_nat he2) (List.length body)
           | SpMalformed -> "E:Malformed"
           | SpPanic -> "PANIC second pass: body slice out of the frame")
        | IErr TooLarge -> "E:TooLarge" | IErr Malformed -> "E:Malformed" | IErr IoRemaining -> "E:IoRemaining"
        | IPanic -> "MODEL-PANIC" in
      String.concat " " (List.map show (run_framed (fun _ -> true) chunks))
    | "udp" ->
      let pk = List.filter_map (fun a -> if String.length a > 2 && String.sub a 0 2 = "S:" then Some (bytes_of_hex (String.sub a 2 (String.length a - 2))) else None)
                 (split_on ',' f.(3)) in
      let (outs, alive) = udp_loop dg_body_end_checked true pk in
      let (_, alive_r) = udp_loop dg_body_end_checked false pk in
      Printf.sprintf "NET alive=%b/%b handled=%d" alive alive_r (List.length outs)
    | _ -> "-")
