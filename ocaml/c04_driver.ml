(* driver for C04: same event and observation format as harness/src/c04.rs *)
let meth_of s = match s with
  | "INVITE" -> INVITE | "ACK" -> ACK | "CANCEL" -> CANCEL
  | _ -> MOther (n_of_int (Hashtbl.hash s))

let () =
  for_each_case Sys.argv.(1) (fun f ->
    let evs = List.filter (fun e -> e <> "") (split_on ',' f.(2)) in
    let st = ref ([], n_of_int 1000) in
    let held : (int, n option * bool ref) Hashtbl.t = Hashtbl.create 8 in   (* n -> (model id option, moved-to-tsx flag) *)
    let nheld = ref 0 in
    let client_kind : (string, string) Hashtbl.t = Hashtbl.create 8 in
    let client_done : (int, bool) Hashtbl.t = Hashtbl.create 8 in
    let client_acc : (string, bool) Hashtbl.t = Hashtbl.create 8 in
    let outs = ref [] in
    let count () = List.length (fst !st) in
    let apply ev = let (st', r) = step !st ev in st := st'; r in
    List.iter (fun e ->
      let p = Array.of_list (split_on ':' e) in
      let obs = (match p.(0) with
        | "M" ->
          let is_req = p.(1) = "q" in
          let branch = if String.length p.(5) > 0 && p.(5).[0] = '@' then "z9hG4bK-client-" ^ String.sub p.(5) 1 (String.length p.(5) - 1)
                       else if p.(5) = "-" then "" else p.(5) in
          let m = { m_is_request = is_req;
                    m_line_method = (if is_req then meth_of p.(2) else INVITE);
                    m_branch = bytes_of_string branch;
                    m_cseq_method = meth_of p.(3);
                    m_cseq = n_of_decimal p.(4);
                    m_from_tag = (if p.(7) = "-" then None else Some (bytes_of_string p.(7)));
                    m_call_id = bytes_of_string p.(6);
                    m_sent_by = bytes_of_string p.(8) } in
          (match apply (Recv m) with
           | Some (ToTsx (id, true)) ->
             let idx = string_of_int (int_of_n id) in
             let status = int_of_string p.(2) in
             let kind = (try Hashtbl.find client_kind idx with Not_found -> "") in
             if kind = "INVITE" && status >= 200 && status < 300 then Hashtbl.replace client_acc idx true;
             if (kind = "INVITE" && status >= 300 && not (Hashtbl.mem client_acc idx)) || (kind <> "INVITE" && status >= 200) then (Hashtbl.replace client_done (int_of_n id) true; ignore (apply (ClientFinal id)));
             "c" ^ idx
           | Some (ToTsx (_, false)) -> "-"
           | Some (NewRequest id) -> let n = !nheld in incr nheld; Hashtbl.replace held n (Some id, ref false); Printf.sprintf "L%d" n
           | Some SurfacedNoReg -> let n = !nheld in incr nheld; Hashtbl.replace held n (None, ref false); Printf.sprintf "L%d" n
           | Some Orphan | Some BadKey -> "-"
           | None -> "?")
        | "C" ->
          let idx = p.(1) in
          Hashtbl.replace client_kind idx p.(2);
          let k = K3261 (Client, bytes_of_string ("z9hG4bK-client-" ^ idx), (match meth_of p.(2) with INVITE | ACK -> None | m -> Some m)) in
          ignore (apply (ClientStart (k, n_of_int (int_of_string idx)))); "-"
        | "S" ->
          let n = int_of_string p.(1) in
          (match Hashtbl.find held n with
           | (Some id, moved) -> moved := true; ignore (apply (RespondSuccess id))
           | _ -> ());
          "-"
        | "X" ->
          let w = p.(1) in
          let num = int_of_string (String.sub w 1 (String.length w - 1)) in
          (match w.[0] with
           | 'h' -> (match Hashtbl.find_opt held num with
                     | Some (Some id, moved) when not !moved -> ignore (apply (End id))
                     | _ -> ())
           | 'a' -> (match Hashtbl.find_opt held num with
                     | Some (Some id, moved) when !moved -> ignore (apply (End id))
                     | _ -> ())
           | 'c' -> if not (Hashtbl.mem client_done num) then ignore (apply (End (n_of_int num)))
           | _ -> ());
          "-"
        | _ -> "?") in
      outs := Printf.sprintf "%s/%d" obs (count ()) :: !outs) evs;
    String.concat ";" (List.rev !outs))
