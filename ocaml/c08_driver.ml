(* driver for C08: the same stack / dialogs / events as the harness, through the extracted [run] *)
let meth_of_letter = function
  | 'i' -> Invite | 'a' -> Ack | 'b' -> Bye | 'c' -> Cancel | 'o' -> Options | 'n' -> Info
  | 'u' -> Update | 'm' -> Message | _ -> Unknown
let mask_of s = List.init (String.length s) (fun i -> meth_of_letter s.[i])
let nonempty l = List.filter (fun s -> s <> "") l

let () =
  for_each_case Sys.argv.(1) (fun f ->
    let ls = List.map (fun l -> if l = "D" then LDialog else LRec (mask_of (String.sub l 1 (String.length l - 1))))
               (nonempty (split_on ';' f.(2))) in
    let has_d = List.mem LDialog ls in
    let ds = if not has_d then [] else
      List.map (fun spec ->
        match split_on ':' spec with
        | c :: rest ->
          let masks = match rest with [m] -> split_on '/' m | _ -> [""] in
          let us = List.filter_map (fun m -> if m = "~" then None else Some (mask_of m)) masks in
          { d_st = entry_new (Some (n_of_decimal c)); d_usages = us }
        | [] -> failwith "bad dialog") (List.filter (fun s -> s <> "-") (nonempty (split_on ';' f.(3)))) in
    let rids = ref [] in
    let reqs = ref [] in
    List.iter (fun group ->
      List.iter (fun item ->
        match split_on ':' item with
        | ["Q"; m; d; c; rid] ->
          let id = n_of_int (List.length !rids + 1) in
          rids := (id, rid) :: !rids;
          let dlg = if d = "-" then None else Some (nat_of_int (int_of_string d)) in
          reqs := { q_id = id; q_meth = meth_of_letter m.[0]; q_dlg = dlg; q_cseq = n_of_decimal c } :: !reqs
        | _ -> ()) (split_on '+' group)) (nonempty (split_on ',' f.(4)));
    let (_, evs) = run ls ds [] (List.rev !reqs) in
    let name id = List.assoc id !rids in
    String.concat " " (List.map (function
      | Offer (i, id) -> Printf.sprintf "L%d:%s" (int_of_nat i) (name id)
      | UOffer (d, u, id) -> Printf.sprintf "U%d.%d:%s" (int_of_nat d) (int_of_nat u) (name id)
      | Final (id, code, inv) -> Printf.sprintf "F:%s:%s:%d" (name id) (decimal_of_n code) (if inv then 1 else 0)
      | Parked id -> "K:" ^ name id) evs))
