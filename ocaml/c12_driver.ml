(* driver for C12 *)
let show_out o =
  let t x = decimal_of_n x in
  match o with
  | Send x -> "S@" ^ t x | TimedOut x -> "T@" ^ t x | Done x -> "D@" ^ t x | OutOfFuel -> "OUT-OF-FUEL" | _ -> "?"

let () =
  for_each_case Sys.argv.(1) (fun f ->
    match f.(2) with
    | "race" ->
      let evs = List.filter (fun s -> s <> "") (split_on ',' f.(3)) in
      let evs = List.map (fun e -> match split_on ':' e with
        | ["cancel"] -> EvCancel true | ["cancelx"] -> EvCancel false | ["bye"] -> EvBye | ["accept"] -> EvAccept
        | ["reject"; c] -> EvReject (n_of_decimal c) | ["prov"] -> EvProvisional | ["dropacc"] -> EvDropAcceptor
        | ["gone"] -> EvGone | _ -> failwith ("bad event " ^ e)) evs in
      let (_, outs) = urun evs in
      let pick f = String.concat "," (List.filter_map f outs) in
      Printf.sprintf "final=%s|cancel=%s|bye=%s|accept=%s|reject=%s|prov=%s"
        (pick (function InviteFinal c -> Some (decimal_of_n c) | _ -> None))
        (pick (function CancelAnswer c -> Some (decimal_of_n c) | _ -> None))
        (pick (function ByeAnswer c -> Some (decimal_of_n c) | ByeToSession -> Some "S" | _ -> None))
        (pick (function AcceptResult b -> Some (if b then "ok" else "term") | _ -> None))
        (pick (function RejectResult b -> Some (if b then "ok" else "term") | _ -> None))
        (pick (function ProvisionalResult b -> Some (if b then "ok" else "term") | _ -> None))
    | "ok2xx" ->
      let t0 = n_of_decimal f.(3) in
      let a = if f.(4) = "-" then None else Some (n_of_decimal f.(4)) in
      String.concat " " (List.map show_out (retransmit_2xx true t0 a))
    | "rel1xx" ->
      let t0 = n_of_decimal f.(3) in
      let a = if f.(4) = "-" then None else Some (n_of_decimal f.(4)) in
      String.concat " " (List.map show_out (retransmit_reliable_1xx true t0 a))
    | _ -> "?")
