(* driver for C03: chunks (hex, '|' separated) -> items of run_framed; messages -> datagram framing *)
let () =
  for_each_case Sys.argv.(1) (fun f ->
    let chunks = List.map bytes_of_hex (List.filter (fun s -> s <> "") (split_on '|' f.(2))) in
    let items = run_framed (fun _ -> true) chunks in
    let show = function
      | IFrame (fr, he, cl) -> Printf.sprintf "F:%d:%d:%s" (List.length fr) (int_of_nat he) (decimal_of_n cl)
      | IErr TooLarge -> "E:TooLarge" | IErr Malformed -> "E:Malformed" | IErr IoRemaining -> "E:IoRemaining"
      | IPanic -> "MODEL-PANIC" in
    let s = String.concat " " (List.map show items) in
    let msgs = if Array.length f > 3 then List.map bytes_of_hex (List.filter (fun s -> s <> "") (split_on '|' f.(3))) else [] in
    let dg = List.map (fun m -> match datagram_parse m with
      | DgOk (he, body) -> Printf.sprintf "%d:%d" (int_of_nat he) (List.length body)
      | DgErr -> "ERR" | DgPanic -> "PANIC") msgs in
    s ^ "\tD[" ^ String.concat " " dg ^ "]")
