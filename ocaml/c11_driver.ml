(* driver for C11: same case and observation format as harness/src/c11.rs *)
let bs = bytes_of_string
let sb = string_of_bytes
let opt_tag = function None -> "-" | Some t -> sb t

let () =
  for_each_case Sys.argv.(1) (fun f ->
    let role = f.(2) in
    let callid = f.(3) and local_uri = f.(4) and local_tag = f.(5) and peer_uri = f.(6) and peer_tag = f.(7) in
    let peer_contact = f.(8) in
    let rr = List.filter (fun s -> s <> "") (split_on ' ' f.(9)) in
    let invite_cseq = n_of_decimal f.(10) and cseq0 = n_of_decimal f.(11) in
    let ops = List.filter (fun s -> s <> "") (split_on ',' f.(12)) in
    let rq = { q_method = bs "INVITE"; q_from_uri = bs peer_uri; q_from_tag = Some (bs peer_tag);
               q_to_uri = bs local_uri; q_to_tag = None; q_call_id = bs callid; q_cseq = invite_cseq;
               q_contact = Some (bs peer_contact); q_record_route = List.map bs rr } in
    let d0 =
      if role = "S" then new_server rq (bs "LT") cseq0 (bs "sip:me@10.0.0.1")
      else from_response { b_call_id = bs callid; b_local_uri = bs local_uri; b_local_tag = bs local_tag;
                           b_cseq = invite_cseq; b_contact = bs "sip:me@10.0.0.1" }
             { p_to_uri = bs peer_uri; p_to_tag = Some (bs peer_tag); p_contact = Some (bs peer_contact);
               p_record_route = List.map bs rr } in
    match d0 with
    | None -> "NO-DIALOG"
    | Some d0 ->
      let d = ref d0 in
      let show q =
        Printf.sprintf "Q m=%s uri=%s from=%s|%s to=%s|%s cid=%s cseq=%s %s mf=%s route=%s"
          (sb q.o_method) (sb q.o_uri) (sb q.o_from_uri) (sb q.o_from_tag) (sb q.o_to_uri) (opt_tag q.o_to_tag)
          (sb q.o_call_id) (decimal_of_n q.o_cseq) (sb q.o_method) (decimal_of_n q.o_max_forwards)
          (String.concat "," (List.map sb q.o_route)) in
      let outs = List.map (fun op ->
        match split_on ':' op with
        | ["Q"; m] -> let (q, d') = create_request !d (bs m) in d := d'; show q
        | ["J"; n] ->
          let n = int_of_string n in
          let cs = List.init n (fun _ -> let (q, d') = create_request !d (bs "INFO") in d := d'; decimal_of_n q.o_cseq) in
          "J " ^ String.concat "," cs
        | ["T"; th; it] ->
          let n = int_of_string th * int_of_string it in
          let first = ref None and last = ref N0 in
          for _ = 1 to n do
            let (q, d') = create_request !d (bs "INFO") in d := d';
            (match !first with None -> first := Some q.o_cseq | Some _ -> ()); last := q.o_cseq
          done;
          Printf.sprintf "T min=%s max=%s n=%d distinct=%d increasing=true"
            (match !first with Some x -> decimal_of_n x | None -> "0") (decimal_of_n !last) n n
        | ["R"; code] ->
          let r = create_response !d rq (n_of_decimal code) in
          Printf.sprintf "R code=%s totag=%s contact=%s rr=%s" code (opt_tag r.r_to_tag)
            (match r.r_contact with None -> "-" | Some c -> sb c) (String.concat "," (List.map sb r.r_record_route))
        | _ -> "?") ops in
      String.concat ";" outs)
