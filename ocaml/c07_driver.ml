(* driver for C07: timed outputs as for C05, plus the ACK the model builds from the INVITE as it
   went on the wire (field 7, hex of "line=..||via=..||from=..||to=..||call-id=..||cseq=..||route=..") *)
let cls_of_code c = if c < 200 then Prov else if c < 300 then Succ else Fail
let cls_letter = function Prov -> "P" | Succ -> "S" | Fail -> "F"

let show_out horizon o =
  let t x = decimal_of_n x in
  let within x = int_of_n x <= horizon in
  match o with
  | Send x -> if within x then Some ("S@" ^ t x) else None
  | AckSent x -> if within x then Some ("A@" ^ t x) else None
  | Got (x, c) -> if within x then Some ("G@" ^ t x ^ ":" ^ cls_letter c) else None
  | TimedOut x -> if within x then Some ("T@" ^ t x) else None
  | Done x -> if within x then Some ("D@" ^ t x) else None
  | OutOfFuel -> Some "OUT-OF-FUEL"

let split_str sep s =
  (* split on a multi-char separator *)
  let n = String.length sep in
  let rec go acc start i =
    if i + n > String.length s then List.rev (String.sub s start (String.length s - start) :: acc)
    else if String.sub s i n = sep then go (String.sub s start (i - start) :: acc) (i + n) (i + n)
    else go acc start (i + 1) in
  go [] 0 0

let hname_of = function
  | "via" -> HVia | "from" -> HFrom | "to" -> HTo | "call-id" -> HCallId | "cseq" -> HCSeq | "route" -> HRoute
  | _ -> HOther N0

let value_of_line l =
  (* "Name: value" -> value *)
  match String.index_opt l ':' with
  | Some i -> String.trim (String.sub l (i + 1) (String.length l - i - 1))
  | None -> l

let () =
  for_each_case Sys.argv.(1) (fun f ->
    let reliable = f.(3) = "1" in
    let arrs0 = List.filter (fun s -> s <> "") (split_on ',' f.(4)) in
    let arrs0 = List.map (fun s ->
      match split_on ':' s with
      | t :: c :: tag :: _ -> (t, int_of_string c, tag)
      | _ -> failwith "bad arrival") arrs0 in
    let arrs = List.map (fun (t, c, _) -> (n_of_decimal t, cls_of_code c)) arrs0 in
    let horizon = int_of_string f.(5) in
    let outs = client_invite true reliable arrs in
    let sched = String.concat " " (List.filter_map (show_out horizon) outs) in
    if Array.length f < 8 || f.(7) = "" then sched else begin
      let shown = string_of_bytes (bytes_of_hex f.(7)) in
      let fields = List.map (fun kv ->
        match String.index_opt kv '=' with
        | Some i -> (String.sub kv 0 i, String.sub kv (i + 1) (String.length kv - i - 1))
        | None -> (kv, "")) (split_str "||" shown) in
      let line = List.assoc "line" fields in
      let uri = (match split_on ' ' line with _ :: u :: _ -> u | _ -> "") in
      let hdrs = List.concat_map (fun (k, v) ->
        if k = "line" || v = "" then [] else
        List.map (fun l -> (hname_of k, bytes_of_string (value_of_line l))) (split_str "&&" v)) fields in
      let cseq_v = (match List.assoc_opt "cseq" fields with Some v -> value_of_line v | None -> "") in
      let cseq_n = (match split_on ' ' cseq_v with n :: _ -> (try Some (n_of_decimal n) with _ -> None) | _ -> None) in
      let inv = { rq_method = bytes_of_string "INVITE"; rq_uri = bytes_of_string uri; rq_headers = hdrs; rq_cseq = cseq_n } in
      let to_inv = (match List.assoc_opt "to" fields with Some v -> value_of_line v | None -> "") in
      (* one ACK per AckSent output; the response that triggered it is the arrival with that time *)
      (* the completed-state task re-sends the one ACK built for the first non-2xx final *)
      let first_ack = List.find_map (fun o -> match o with AckSent t -> Some t | _ -> None) outs in
      let acks = List.filter_map (fun o -> match o with
        | AckSent t when int_of_n t <= horizon ->
          let t0 = (match first_ack with Some x -> x | None -> t) in
          let (_, code, tag) = List.find (fun (t', _, _) -> t' = decimal_of_n t0) arrs0 in
          let to_v = if code > 100 && tag <> "-" then to_inv ^ ";tag=" ^ tag else to_inv in
          let resp = [(HTo, bytes_of_string to_v)] in
          (match create_ack inv resp with
           | None -> Some "ACK:none"
           | Some ack ->
             let vals n = String.concat "&&" (List.map string_of_bytes (values ack.rq_headers n)) in
             let cs = (match ack.rq_cseq with Some n -> decimal_of_n n ^ " " ^ string_of_bytes ack.rq_method | None -> "") in
             Some (Printf.sprintf "ACK:line=%s %s SIP/2.0||via=%s||from=%s||to=%s||call-id=%s||cseq=%s||route=%s"
                     (string_of_bytes ack.rq_method) (string_of_bytes ack.rq_uri)
                     (vals HVia) (vals HFrom) (vals HTo) (vals HCallId) cs (vals HRoute)))
        | _ -> None) outs in
      String.concat "\t" (sched :: acks)
    end)
