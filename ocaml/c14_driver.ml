(* driver for C14: same case format as harness/src/c14.rs. Output: every outcome the model allows
   (HashMap order), separated by " || " *)
let addr_num = [| "168364297" (*10.9.9.9*); "184486143" (*10.255.8.255*); "42540766411282592856903984951653826569" (*2001:db8::9*); "281473902969345" (*::ffff:192.0.2.1, an IPv6 address*) |]
let addr_txt = [| "10.9.9.9"; "10.255.8.255"; "[2001:db8::9]"; "[::ffff:192.0.2.1]" |]

let () =
  for_each_case Sys.argv.(1) (fun f ->
    let items s = List.filter (fun x -> x <> "") (split_on ',' s) in
    let unm = List.map (fun u -> match split_on ':' u with
      | [s; v] -> { dg_secure = (s = "1"); dg_v6 = (v = "1") } | _ -> failwith "bad unmanaged") (items f.(2)) in
    let facs = List.map (fun u -> match split_on ':' u with
      | [s; ok] -> { f_secure = (s = "1"); f_connects = (ok = "1") } | _ -> failwith "bad factory") (items f.(3)) in
    let conns = List.map (fun c -> match split_on ':' c with
      | ["o"; s; a; port; st] ->
        let a = int_of_string a in
        { c_secure = (s = "1"); c_outgoing = true; c_v6 = (a >= 2); c_ip = n_of_decimal addr_num.(a);
          c_port = n_of_decimal port; c_usable = (st <> "dead") }
      | ["i"; s; a; port] ->
        let a = int_of_string a in
        { c_secure = (s = "1"); c_outgoing = false; c_v6 = (a >= 2); c_ip = n_of_decimal addr_num.(a);
          c_port = n_of_decimal port; c_usable = true }
      | _ -> failwith "bad conn") (items f.(4)) in
    let u = match split_on ':' f.(5) with
      | s :: a :: port :: _ ->       (* a fourth field is the URI's transport= parameter: not looked at for IP literals *)
        let a = int_of_string a in
        ({ u_secure = (s = "1"); u_v6 = (a >= 2); u_ip = n_of_decimal addr_num.(a);
           u_port = (if port = "-" then None else Some (n_of_decimal port)) }, a)
      | _ -> failwith "bad uri" in
    let (u, a) = u in
    let cfg = { unmanaged = unm; factories = facs; conns = conns } in
    let dest = Printf.sprintf "%s:%s" addr_txt.(a) (decimal_of_n (resolve_port u)) in
    let show c = match c with
      | UseDatagram i -> Printf.sprintf "U%d secure=%d dest=%s asked=" (int_of_nat i) (if (List.nth unm (int_of_nat i)).dg_secure then 1 else 0) dest
      | UseConn i -> Printf.sprintf "R%d secure=%d dest=%s asked=" (int_of_nat i) (if (List.nth conns (int_of_nat i)).c_secure then 1 else 0) dest
      | NewConn i ->
        Printf.sprintf "N%d secure=%d dest=%s asked=%s" (int_of_nat i) (if (List.nth facs (int_of_nat i)).f_secure then 1 else 0) dest
          (String.concat "," (List.map (fun k -> string_of_int (int_of_nat k)) (asked u facs O)))
      | Fail -> Printf.sprintf "ERR asked=%s" (String.concat "," (List.map (fun k -> string_of_int (int_of_nat k)) (asked u facs O))) in
    String.concat " || " (List.map show (select cfg u)))
