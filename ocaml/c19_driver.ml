(* driver for C19: text through the extracted parse_text (every unmodelled field payload counts as valid);
   prints the same shape as the harness, and the model's own print of what it parsed *)
let hx (b : byte list) = if b = [] then "''" else hex_of_bytes b
let ob = function Some _ -> "1" | None -> "0"
let str b = string_of_bytes b
let attrs (l : uattr list) =
  String.concat "," (List.map (fun a -> match a.a_value with Some v -> hx a.a_name ^ "=" ^ hx v | None -> hx a.a_name) l)
let proto_s = function POther o -> "O:" ^ hx o | p -> str (proto_name p)

let shape (s : sdesc) =
  let ms = List.map (fun m ->
    Printf.sprintf "M{mt=%s;port=%s;pn=%s;proto=%s;fmts=[%s];dir=%s;c=%s;b=%d;rtcp=%s;rm=%d;fm=%d;uf=%s;pw=%s;cand=%d;eoc=%d;cr=%d;at=[%s]}"
      (str (mtype_name m.md_media.m_type)) (decimal_of_n m.md_media.m_port)
      (match m.md_media.m_ports_num with Some n -> decimal_of_n n | None -> "-")
      (proto_s m.md_media.m_proto) (String.concat "," (List.map decimal_of_n m.md_media.m_fmts))
      (str (dir_name m.md_dir)) (ob m.md_conn) (List.length m.md_bw) (ob m.md_rtcp) (List.length m.md_rtpmaps) (List.length m.md_fmtps)
      (ob m.md_ufrag) (ob m.md_pwd) (List.length m.md_cands) (if m.md_eoc then 1 else 0) (List.length m.md_crypto) (attrs m.md_attrs)) s.s_media in
  Printf.sprintf "S{name=%s;dir=%s;c=%s;b=%d;io=%s;lite=%d;uf=%s;pw=%s;at=[%s];M=[%s]}"
    (hx s.s_name) (str (dir_name s.s_dir)) (ob s.s_conn) (List.length s.s_bw) (ob s.s_iceopts) (if s.s_icelite then 1 else 0)
    (ob s.s_ufrag) (ob s.s_pwd) (attrs s.s_attrs) (String.concat " " ms)

let cand_dump (c : cand) =
  let ob f = function Some x -> f x | None -> "-" in
  Printf.sprintf "%s|%s|%s|%s|%s|%s|%s|%s|%s|(%s)" (hx c.cd_foundation) (decimal_of_n c.cd_component) (hx c.cd_transport) (decimal_of_n c.cd_priority)
    (hx c.cd_addr) (decimal_of_n c.cd_port) (hx c.cd_typ) (ob hx c.cd_raddr) (ob decimal_of_n c.cd_rport)
    (String.concat "+" (List.map (fun (k, v) -> hx k ^ "=" ^ hx v) c.cd_unknown))

let () =
  for_each_case Sys.argv.(1) (fun f ->
    if f.(2) = "cand" then begin
      match parse_cand (bytes_of_hex f.(3)) with
      | None -> "C=ERR"
      | Some c ->
        let printed = print_cand c in
        "C=" ^ cand_dump c ^ "\tT=" ^ hex_of_bytes printed ^ "\tC2=" ^ (match parse_cand printed with Some c2 -> cand_dump c2 | None -> "ERR")
    end else
    match parse_text (fun _ _ -> true) (bytes_of_hex f.(3)) with
    | None -> "ERR"
    | Some s ->
      let printed = print_text s in
      let again = match parse_text (fun _ _ -> true) printed with Some s2 -> if shape s2 = shape s then "same" else "DIFFERENT" | None -> "ERR" in
      shape s ^ "\tT2=" ^ hex_of_bytes printed ^ "\tRT=" ^ again)
