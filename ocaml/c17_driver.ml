(* driver for C17. Cases:
   session: id c17 uas|uac <model-in> ... the Python side passes the already extracted parameters:
     fields: id c17 sess <role> <refresher uas|uac|unspec|none> <delta or min_se> <t0 ms> <refresh times ms ','> <horizon ms>
   reg:     id c17 reg <expiry> <script> <horizon> *)
let refr = function "uas" -> RUas | "uac" -> RUac | _ -> RUnspec

let () =
  for_each_case Sys.argv.(1) (fun f ->
    match f.(2) with
    | "reg" ->
      let expiry = n_of_decimal f.(3) in
      let evs = List.filter (fun s -> s <> "") (split_on ',' f.(4)) in
      let evs = List.map (fun a -> match split_on ':' a with
        | [t; "ok"; "-"] -> RSuccess (n_of_decimal t, None)
        | [t; "ok"; e] -> RSuccess (n_of_decimal t, Some (n_of_decimal e))
        | [t; "min"; m] -> RMinExpires (n_of_decimal t, n_of_decimal m)
        | _ -> failwith "bad reg event") evs in
      let horizon = n_of_decimal f.(5) in
      let ticks = reg_run (nat_of_int 100000) (reg_start N0 expiry) evs horizon in
      let n = List.length ticks + 1 in
      Printf.sprintf "ticks=%s cseq=%s callid_same=true"
        (String.concat "," (List.map decimal_of_n ticks))
        (String.concat "," (List.init n string_of_int))
    | "sess" ->
      let role = if f.(3) = "uas" then Uas else Uac in
      let t0 = n_of_decimal f.(6) in
      let evs = List.map n_of_decimal (List.filter (fun s -> s <> "") (split_on ',' f.(7))) in
      let horizon = n_of_decimal f.(8) in
      let timer =
        if f.(3) = "uas" then
          (* acceptor: default config (interval 1800, refresher uac), peer Min-SE in f.(5) *)
          let (rf, delta), real = uas_timer (n_of_int 1800) RUac (if f.(5) = "-" then None else Some (n_of_decimal f.(5))) in
          Some (rf, delta, real)
        else
          (match f.(4) with
           | "none" -> None
           | r -> (match uac_timer (Some (n_of_decimal f.(5), refr r)) with
                   | Some (rf, real) -> Some (rf, n_of_decimal f.(5), real)
                   | None -> None)) in
      (match timer with
       | None -> "timer=none"
       | Some (rf, delta, real) ->
         let mine = we_refresh role rf in
         let real_ms = n_of_decimal (decimal_of_n real ^ "000") in
         let outs = session_run (nat_of_int 2000) mine real_ms (n_of_decimal (decimal_of_n (n_of_decimal (string_of_int 0)) ) ) [] N0 in
         ignore outs;
         let add a b = n_of_decimal (string_of_int (int_of_n a + int_of_n b)) in
         let outs = session_run (nat_of_int 2000) mine real_ms (add t0 real_ms) evs horizon in
         Printf.sprintf "timer=%s/%s/%s %s"
           (match rf with RUas -> "uas" | RUac -> "uac" | RUnspec -> "unspec") (decimal_of_n delta) (decimal_of_n real)
           (String.concat " " (List.map (function
              | RefreshNeeded t -> "refresh@" ^ decimal_of_n t
              | ByeSent t -> "bye@" ^ decimal_of_n t
              | SFuel -> "FUEL") outs)))
    | _ -> "?")
