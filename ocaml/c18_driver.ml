(* driver for C18: same case format as harness/src/c18.rs; digest values are printed as expression
   trees that tools/props/c18.py evaluates with hashlib (the cnonce is read from the implementation's header) *)
let bs = bytes_of_string
let hexs s = hex_of_bytes s

let rec show_expr = function
  | Lit b -> "L" ^ hexs b
  | Cat l -> "C(" ^ String.concat "," (List.map show_expr l) ^ ")"
  | H (a, e) -> (match a with MD5 -> "Hmd5(" | SHA256 -> "Hsha256(" | SHA512256 -> "Hsha512_256(") ^ show_expr e ^ ")"
  | Hex8 n -> "X" ^ decimal_of_n n

let alg_of name =
  let l = String.lowercase_ascii name in
  let sess = String.length l > 5 && String.sub l (String.length l - 5) 5 = "-sess" in
  let base = if sess then String.sub l 0 (String.length l - 5) else l in
  ((match base with "md5" -> Some MD5 | "sha-256" -> Some SHA256 | "sha-512-256" -> Some SHA512256 | _ -> None), sess)

let () =
  for_each_case Sys.argv.(1) (fun f ->
    let rq = { rq_method = bs f.(2); rq_uri = bs f.(3); rq_body = bytes_of_hex f.(4) } in
    let entries_s = List.filter (fun s -> s <> "") (split_on ';' f.(5)) in
    let parse_cr up = match split_on ':' up with [u; p] -> { cr_user = bytes_of_hex u; cr_pass = bytes_of_hex p } | _ -> failwith "creds" in
    let put st e =
      match String.index_opt e '=' with
      | Some i ->
        let realm = String.sub e 0 i and up = String.sub e (i + 1) (String.length e - i - 1) in
        if realm = "*" then set_default (parse_cr up) st else add_for_realm (bytes_of_hex realm) (parse_cr up) st
      | None -> st in
    (* CredentialStore::add_for_realm / set_default of the model, applied in the order of the case *)
    let store = ref (List.fold_left put ([], None) entries_s) in
    let opts = if Array.length f > 7 then f.(7) else "" in
    let contains s sub = let n = String.length sub in let rec go i = i + n <= String.length s && (String.sub s i n = sub || go (i + 1)) in go 0 in
    let enforce = contains opts "enforce" and rejmd5 = contains opts "rejectmd5" in
    let es = ref [] in
    let steps = List.filter (fun s -> s <> "") (split_on ';' f.(6)) in
    let outs = List.map (fun step ->
      if String.length step > 0 && step.[0] = 'C' then begin
        store := put !store (String.sub step 1 (String.length step - 1)); "C[]"
      end else if step = "U" then begin
        let (es', hs) = authorize !es in
        let old = !es in
        es := es';
        let shown = List.map (fun ((proxy, realm), uses) ->
          let e = List.find (fun e -> e.e_realm = realm) old in
          let cn = Lit (bs "\000CNONCE\000" @ realm) in
          match respond enforce e.e_chal e.e_creds rq cn uses with
          | None -> "none"
          | Some d ->
            Printf.sprintf "%s|username=%s|realm=%s|nonce=%s|uri=%s|response=%s|alg=%s%s|opaque=%s|qop=%s|nc=%s|userhash=%d"
              (if proxy then "P" else "A") (show_expr d.d_username) (hexs d.d_realm) (hexs d.d_nonce) (hexs d.d_uri)
              (show_expr d.d_response)
              (match d.d_alg with MD5 -> "MD5" | SHA256 -> "SHA-256" | SHA512256 -> "SHA-512-256") (if d.d_sess then "-sess" else "")
              (match d.d_opaque with None -> "-" | Some o -> hexs o)
              (match d.d_qop with QNone -> "-" | QAuth -> "auth" | QAuthInt -> "auth-int")
              (decimal_of_n d.d_nc) (if d.d_userhash then 1 else 0)) hs in
        "U[" ^ String.concat "," shown ^ "]"
      end else begin
        let chs = List.filter (fun s -> s <> "") (split_on '|' (String.sub step 1 (String.length step - 1))) in
        let chs = List.map (fun c -> match split_on ',' c with
          | k :: algn :: qops :: uh :: realm :: nonce :: opaque :: _ ->      (* an eighth field is the stale flag: not looked at *)
            let (a, sess) = alg_of algn in
            let qs = if qops = "-" then [] else List.map (function "auth" -> OAuth | "auth-int" -> OAuthInt | _ -> OOther) (split_on '+' qops) in
            (k = "P", { c_alg = a; c_sess = sess; c_qops = qs; c_userhash = (uh = "1"); c_realm = bytes_of_hex realm;
                        c_nonce = bytes_of_hex nonce; c_opaque = (if opaque = "-" then None else Some (bytes_of_hex opaque)) })
          | _ -> failwith "bad challenge") chs in
        (* read_challenges: all WWW-Authenticate first, then all Proxy-Authenticate *)
        let chs = List.filter (fun (p, _) -> not p) chs @ List.filter (fun (p, _) -> p) chs in
        let (es', failed) = handle_authenticate enforce rejmd5 !store !es chs in
        es := es';
        if failed = [] then "A[ok]" else "A[fail:" ^ String.concat "," (List.map hexs failed) ^ "]"
      end) steps in
    String.concat ";" outs)
