(* driver for C20: the same enc / dec / demux / cli cases as the harness through the extracted model.
   HMAC-SHA1 / HMAC-SHA256 (FIPS 180-4, RFC 2104) are implemented here and passed to the model as its [hmac]. *)
let m32 = 0xFFFFFFFF
let rotl x n = ((x lsl n) lor (x lsr (32 - n))) land m32
let rotr x n = ((x lsr n) lor (x lsl (32 - n))) land m32

let pad_msg (s : string) : string =
  let n = String.length s in
  let padlen = (55 - n) mod 64 in
  let padlen = if padlen < 0 then padlen + 64 else padlen in
  let b = Buffer.create (n + 72) in
  Buffer.add_string b s; Buffer.add_char b '\x80';
  Buffer.add_string b (String.make padlen '\x00');
  let bits = n * 8 in
  for i = 7 downto 0 do Buffer.add_char b (Char.chr ((bits lsr (8 * i)) land 255)) done;
  Buffer.contents b

let word s i = (Char.code s.[i] lsl 24) lor (Char.code s.[i+1] lsl 16) lor (Char.code s.[i+2] lsl 8) lor Char.code s.[i+3]
let out_words ws =
  let b = Buffer.create 32 in
  Array.iter (fun w -> for i = 3 downto 0 do Buffer.add_char b (Char.chr ((w lsr (8 * i)) land 255)) done) ws;
  Buffer.contents b

let sha1 (s : string) : string =
  let p = pad_msg s in
  let h = [| 0x67452301; 0xEFCDAB89; 0x98BADCFE; 0x10325476; 0xC3D2E1F0 |] in
  let w = Array.make 80 0 in
  for blk = 0 to String.length p / 64 - 1 do
    for t = 0 to 15 do w.(t) <- word p (blk * 64 + 4 * t) done;
    for t = 16 to 79 do w.(t) <- rotl (w.(t-3) lxor w.(t-8) lxor w.(t-14) lxor w.(t-16)) 1 done;
    let a = ref h.(0) and b = ref h.(1) and c = ref h.(2) and d = ref h.(3) and e = ref h.(4) in
    for t = 0 to 79 do
      let f, k =
        if t < 20 then ((!b land !c) lor ((lnot !b) land m32 land !d), 0x5A827999)
        else if t < 40 then (!b lxor !c lxor !d, 0x6ED9EBA1)
        else if t < 60 then ((!b land !c) lor (!b land !d) lor (!c land !d), 0x8F1BBCDC)
        else (!b lxor !c lxor !d, 0xCA62C1D6) in
      let tmp = (rotl !a 5 + f + !e + k + w.(t)) land m32 in
      e := !d; d := !c; c := rotl !b 30; b := !a; a := tmp
    done;
    h.(0) <- (h.(0) + !a) land m32; h.(1) <- (h.(1) + !b) land m32; h.(2) <- (h.(2) + !c) land m32;
    h.(3) <- (h.(3) + !d) land m32; h.(4) <- (h.(4) + !e) land m32
  done;
  out_words h

let k256 = [|
  0x428a2f98;0x71374491;0xb5c0fbcf;0xe9b5dba5;0x3956c25b;0x59f111f1;0x923f82a4;0xab1c5ed5;0xd807aa98;0x12835b01;0x243185be;0x550c7dc3;
  0x72be5d74;0x80deb1fe;0x9bdc06a7;0xc19bf174;0xe49b69c1;0xefbe4786;0x0fc19dc6;0x240ca1cc;0x2de92c6f;0x4a7484aa;0x5cb0a9dc;0x76f988da;
  0x983e5152;0xa831c66d;0xb00327c8;0xbf597fc7;0xc6e00bf3;0xd5a79147;0x06ca6351;0x14292967;0x27b70a85;0x2e1b2138;0x4d2c6dfc;0x53380d13;
  0x650a7354;0x766a0abb;0x81c2c92e;0x92722c85;0xa2bfe8a1;0xa81a664b;0xc24b8b70;0xc76c51a3;0xd192e819;0xd6990624;0xf40e3585;0x106aa070;
  0x19a4c116;0x1e376c08;0x2748774c;0x34b0bcb5;0x391c0cb3;0x4ed8aa4a;0x5b9cca4f;0x682e6ff3;0x748f82ee;0x78a5636f;0x84c87814;0x8cc70208;
  0x90befffa;0xa4506ceb;0xbef9a3f7;0xc67178f2 |]

let sha256 (s : string) : string =
  let p = pad_msg s in
  let h = [| 0x6a09e667; 0xbb67ae85; 0x3c6ef372; 0xa54ff53a; 0x510e527f; 0x9b05688c; 0x1f83d9ab; 0x5be0cd19 |] in
  let w = Array.make 64 0 in
  for blk = 0 to String.length p / 64 - 1 do
    for t = 0 to 15 do w.(t) <- word p (blk * 64 + 4 * t) done;
    for t = 16 to 63 do
      let s0 = rotr w.(t-15) 7 lxor rotr w.(t-15) 18 lxor (w.(t-15) lsr 3) in
      let s1 = rotr w.(t-2) 17 lxor rotr w.(t-2) 19 lxor (w.(t-2) lsr 10) in
      w.(t) <- (w.(t-16) + s0 + w.(t-7) + s1) land m32
    done;
    let v = Array.copy h in
    for t = 0 to 63 do
      let a = v.(0) and e = v.(4) in
      let s1 = rotr e 6 lxor rotr e 11 lxor rotr e 25 in
      let ch = (e land v.(5)) lxor ((lnot e) land m32 land v.(6)) in
      let t1 = (v.(7) + s1 + ch + k256.(t) + w.(t)) land m32 in
      let s0 = rotr a 2 lxor rotr a 13 lxor rotr a 22 in
      let mj = (a land v.(1)) lxor (a land v.(2)) lxor (v.(1) land v.(2)) in
      let t2 = (s0 + mj) land m32 in
      v.(7) <- v.(6); v.(6) <- v.(5); v.(5) <- v.(4); v.(4) <- (v.(3) + t1) land m32;
      v.(3) <- v.(2); v.(2) <- v.(1); v.(1) <- v.(0); v.(0) <- (t1 + t2) land m32
    done;
    for i = 0 to 7 do h.(i) <- (h.(i) + v.(i)) land m32 done
  done;
  out_words h

let hmac_str hash key msg =
  let key = if String.length key > 64 then hash key else key in
  let key = key ^ String.make (64 - String.length key) '\x00' in
  let x c = String.map (fun k -> Char.chr (Char.code k lxor c)) key in
  hash (x 0x5c ^ hash (x 0x36 ^ msg))

let hmac (alg : n) (key : byte list) (msg : byte list) : byte list =
  let h = if int_of_n alg = 1 then sha1 else sha256 in
  bytes_of_string (hmac_str h (string_of_bytes key) (string_of_bytes msg))

(* ---- attribute notation -> model attributes ---- *)
let types = [ "MA",0x0001; "UN",0x0006; "EC",0x0009; "UA",0x000A; "CN",0x000C; "LT",0x000D; "XP",0x0012; "DA",0x0013; "RE",0x0014;
  "NO",0x0015; "XR",0x0016; "EP",0x0018; "RT",0x0019; "DF",0x001A; "PA",0x001D; "UH",0x001E; "XM",0x0020; "RV",0x0022;
  "PS",0x8002; "AD",0x8003; "SW",0x8022; "AS",0x8023; "MI",0x0008; "MS",0x001C; "FP",0x8028 ]
let typ_of code = n_of_int (List.assoc code types)
let nat_be k v = be (nat_of_int k) (n_of_int v)

let split2 c s = match String.index_opt s c with
  | Some i -> (String.sub s 0 i, String.sub s (i + 1) (String.length s - i - 1))
  | None -> (s, "")

let parse_addr arg =
  (* a.b.c.d:port | [v6]:port ; returns (v4, ip as decimal string N, port) *)
  let i = String.rindex arg ':' in
  let host = String.sub arg 0 i and port = int_of_string (String.sub arg (i + 1) (String.length arg - i - 1)) in
  if host.[0] = '[' then begin
    let h = String.sub host 1 (String.length host - 2) in
    (* expand :: *)
    let find_dc s = let n = String.length s in
      let rec go i = if i + 1 >= n then None else if s.[i] = ':' && s.[i+1] = ':' then Some i else go (i + 1) in go 0 in
    let groups = match find_dc h with
      | None -> String.split_on_char ':' h
      | Some i ->
        let l = String.sub h 0 i and r = String.sub h (i + 2) (String.length h - i - 2) in
        let ls = if l = "" then [] else String.split_on_char ':' l and rs = if r = "" then [] else String.split_on_char ':' r in
        ls @ List.init (8 - List.length ls - List.length rs) (fun _ -> "0") @ rs in
    let bytes = List.concat_map (fun g -> let v = int_of_string ("0x" ^ g) in [v lsr 8; v land 255]) groups in
    (false, of_be (List.map byte_of_int bytes), port)
  end else begin
    let o = List.map int_of_string (String.split_on_char '.' host) in
    (true, of_be (List.map byte_of_int o), port)
  end

let value code arg tsx : byte list =
  match code with
  | "SW" | "UN" | "RE" | "NO" | "AD" | "DA" | "UH" | "RV" -> bytes_of_hex arg
  | "MA" | "AS" -> let (v4, ip, port) = parse_addr arg in enc_addr false tsx v4 ip (n_of_int port)
  | "XM" | "XP" | "XR" -> let (v4, ip, port) = parse_addr arg in enc_addr true tsx v4 ip (n_of_int port)
  | "EC" -> let (num, reason) = split2 ':' arg in let num = int_of_string num in
    nat_be 4 (((num / 100) lsl 8) lor (num mod 100)) @ bytes_of_hex reason
  | "UA" -> List.concat_map (fun x -> nat_be 2 (int_of_string x)) (List.filter (fun s -> s <> "") (split_on ',' arg))
  | "PA" -> let (alg, params) = split2 ':' arg in let p = bytes_of_hex params in
    nat_be 2 (int_of_string alg) @ nat_be 2 (List.length p) @ p @ List.init ((4 - List.length p mod 4) mod 4) (fun _ -> byte_of_int 0)
  | "PS" -> List.concat_map (fun e -> let (alg, params) = split2 ':' e in let p = bytes_of_hex params in
      nat_be 2 (int_of_string alg) @ nat_be 2 (List.length p) @ p @ List.init ((4 - List.length p mod 4) mod 4) (fun _ -> byte_of_int 0))
      (List.filter (fun s -> s <> "") (split_on ';' arg))
  | "CN" -> nat_be 2 (int_of_string arg) @ nat_be 2 0
  | "LT" -> be (nat_of_int 4) (n_of_decimal arg)
  | "EP" -> [byte_of_int (if arg = "1" then 1 else 0)]
  | "RT" -> [byte_of_int (int_of_string arg); byte_of_int 0; byte_of_int 0; byte_of_int 0]
  | "DF" -> []
  | _ -> failwith ("attr " ^ code)

let battr_of a tsx = let (code, arg) = split2 ':' a in
  match code with
  | "MI" -> BInteg (n_of_int 1, bytes_of_hex arg)
  | "MS" -> BInteg (n_of_int 2, bytes_of_hex arg)
  | "FP" -> BFinger
  | _ -> BRaw (typ_of code, value code arg tsx)

let class_of_s = function "req" -> Request | "ind" -> Indication | "ok" -> Success | _ -> Error
let s_of_class = function Request -> "req" | Indication -> "ind" | Success -> "ok" | Error -> "err"

let hex24 (x : n) = let b = be (nat_of_int 12) x in hex_of_bytes b

let show_addr xor tsx v = match dec_addr xor tsx v with
  | None -> "ERR"
  | Some ((v4, ip), port) ->
    let p = int_of_n port in
    if v4 then let b = List.map int_of_byte (be (nat_of_int 4) ip) in
      Printf.sprintf "%s:%d" (String.concat "." (List.map string_of_int b)) p
    else "V6:" ^ hex_of_bytes (be (nat_of_int 16) ip) ^ ":" ^ string_of_int p

let utf8_ok s = (* minimal structural check: the harness' from_utf8 *)
  let n = String.length s in
  let rec go i = if i >= n then true else
    let c = Char.code s.[i] in
    let cont k = i + k < n && (Char.code s.[i + k]) land 0xC0 = 0x80 in
    if c < 0x80 then go (i + 1)
    else if c >= 0xC2 && c <= 0xDF then cont 1 && go (i + 2)
    else if c = 0xE0 then cont 1 && cont 2 && Char.code s.[i+1] >= 0xA0 && go (i + 3)
    else if (c >= 0xE1 && c <= 0xEC) || c = 0xEE || c = 0xEF then cont 1 && cont 2 && go (i + 3)
    else if c = 0xED then cont 1 && cont 2 && Char.code s.[i+1] <= 0x9F && go (i + 3)
    else if c = 0xF0 then cont 1 && cont 2 && cont 3 && Char.code s.[i+1] >= 0x90 && go (i + 4)
    else if c >= 0xF1 && c <= 0xF3 then cont 1 && cont 2 && cont 3 && go (i + 4)
    else if c = 0xF4 then cont 1 && cont 2 && cont 3 && Char.code s.[i+1] <= 0x8F && go (i + 4)
    else false in
  go 0

let decode_all (buf : byte list) (queries : string) : string =
  match parse buf with
  | None -> "PARSE-ERROR"
  | Some m ->
    let hd = Printf.sprintf "H:%s:%s:%d" (s_of_class m.m_class) (hex24 m.m_tsx) (List.length m.m_attrs) in
    let tsx = m.m_tsx in
    let one q =
      let (code, arg) = split2 ':' q in
      let typ = typ_of code in
      let res = match find_attr typ false m.m_attrs with
        | None -> "NONE"
        | Some a ->
          let raw = slice buf a.p_begin a.p_end and trimmed = slice buf a.p_begin a.p_trim in
          (match code with
           | "SW" | "UN" | "RE" -> if utf8_ok (string_of_bytes trimmed) then hex_of_bytes trimmed else "ERR"
           | "NO" | "AD" | "DA" -> hex_of_bytes trimmed
           | "MA" | "AS" -> show_addr false tsx raw
           | "XM" | "XP" | "XR" -> show_addr true tsx raw
           | "EC" -> if List.length raw < 4 then "ERR" else
               let h = int_of_n (of_be (slice raw O (nat_of_int 4))) in
               let reason = if List.length trimmed > 4 then slice trimmed (nat_of_int 4) (nat_of_int (List.length trimmed)) else [] in
               if utf8_ok (string_of_bytes reason) then Printf.sprintf "%d:%s" (((h lsr 8) land 15) * 100 + (h land 255)) (hex_of_bytes reason) else "ERR"
           | "UA" -> if List.length trimmed mod 2 <> 0 then "ERR" else
               let rec go l = match l with a :: b :: t -> string_of_int (int_of_byte a * 256 + int_of_byte b) :: go t | _ -> [] in
               String.concat "," (go trimmed)
           | "UH" -> if List.length raw <> 32 then "ERR" else hex_of_bytes raw
           | "RV" -> if List.length raw <> 8 then "ERR" else hex_of_bytes raw
           | "PA" -> (match raw with a :: b :: c :: d :: rest ->
               let len = int_of_byte c * 256 + int_of_byte d in
               if List.length rest < len then "ERR" else
               Printf.sprintf "%d:%s" (int_of_byte a * 256 + int_of_byte b) (hex_of_bytes (slice rest O (nat_of_int len)))
             | _ -> "ERR")
           | "PS" ->
             let rec go l acc = match l with
               | [] -> Some (List.rev acc)
               | a :: b :: c :: d :: rest ->
                 let len = int_of_byte c * 256 + int_of_byte d in
                 if List.length rest < len then None else
                 let e = Printf.sprintf "%d:%s" (int_of_byte a * 256 + int_of_byte b) (hex_of_bytes (slice rest O (nat_of_int len))) in
                 let adv = len + ((4 - len mod 4) mod 4) in
                 let rest' = if List.length rest < adv then [] else slice rest (nat_of_int adv) (nat_of_int (List.length rest)) in
                 go rest' (e :: acc)
               | _ -> None in
             (match go raw [] with Some l -> String.concat ";" l | None -> "ERR")
           | "CN" -> (match raw with a :: b :: _ -> string_of_int (int_of_byte a * 256 + int_of_byte b) | _ -> "ERR")
           | "LT" -> if List.length raw < 4 then "ERR" else decimal_of_n (of_be (slice raw O (nat_of_int 4)))
           | "EP" -> (match raw with a :: _ -> if int_of_byte a = 1 then "1" else "0" | _ -> "ERR")
           | "RT" -> (match raw with a :: _ -> string_of_int (int_of_byte a) | _ -> "ERR")
           | "DF" -> "present"
           | "MI" -> if verify_integrity hmac (n_of_int 1) (bytes_of_hex arg) buf a then "verified" else "ERR"
           | "MS" -> if verify_integrity hmac (n_of_int 2) (bytes_of_hex arg) buf a then "verified" else "ERR"
           | "FP" -> if verify_fingerprint buf a then "verified" else "ERR"
           | _ -> "?") in
      code ^ "=" ^ res in
    String.concat " " (hd :: List.map one (List.filter (fun s -> s <> "") (split_on '|' queries)))

let () =
  for_each_case Sys.argv.(1) (fun f ->
    match f.(2) with
    | "enc" ->
      let tsx = of_be (bytes_of_hex f.(5)) in
      let attrs = List.filter (fun s -> s <> "") (split_on '|' f.(6)) in
      (match build hmac (f.(3) = "pad") (class_of_s f.(4)) tsx (List.map (fun a -> battr_of a tsx) attrs) with
       | None -> "B=ENCODE-ERROR"
       | Some buf ->
         let q = String.concat "|" (List.map (fun a -> let (c, _) = split2 ':' a in if c = "MI" || c = "MS" then a else c) attrs) in
         "B=" ^ hex_of_bytes buf ^ "\tP=" ^ decode_all buf q)
    | "dec" -> "P=" ^ decode_all (bytes_of_hex f.(3)) f.(4)
    | "demux" ->
      (match is_stun (bytes_of_hex f.(3)) with
       | TooShort -> "TooShort" | NoStun -> "No"
       | YesStun r -> Printf.sprintf "Yes:%d" (int_of_nat r) | Incomplete k -> Printf.sprintf "Incomplete:%d" (int_of_nat k))
    | "cli" ->
      if f.(3) = "1" then "sends= result=reliable" else
      let resp = if f.(4) = "-" then None else Some (n_of_decimal f.(4)) in
      let ((sends, ok), e) = client_run resp in
      Printf.sprintf "sends=%s result=%s@%s" (String.concat "," (List.map decimal_of_n sends)) (if ok then "response" else "timeout") (decimal_of_n e)
    | _ -> "-")
