(* driver for C16: ownership operations (derived from the scenario by tools/props/c16.py) through the
   extracted [step]; P prints the table size at that point *)
let () =
  for_each_case Sys.argv.(1) (fun f ->
    match f.(2) with
    | "ops" ->
      let w = ref { now = N0; tbl = [] } in
      let out = ref [] in
      List.iter (fun item ->
        match split_on ':' item with
        | ["C"; k; h] -> w := step !w (Create (n_of_decimal k, n_of_decimal h))
        | ["D"; h; u] -> w := step !w (Detach (n_of_decimal h, n_of_decimal u))
        | ["X"; h] -> w := step !w (Drop (n_of_decimal h))
        | ["A"; t] -> w := step !w (Advance (n_of_decimal t))
        | ["N"; k] -> w := step !w (Noise (n_of_decimal k))
        | ["F"; k] -> w := step !w (Finish (n_of_decimal k))
        | ["P"; t] -> out := (Printf.sprintf "P@%s:tsx%s" t (decimal_of_n (size !w))) :: !out
        | _ -> ()) (List.filter (fun s -> s <> "") (split_on ',' f.(3)));
      String.concat " " (List.rev !out)
    | "quiesce" -> "quiesced=tsx0/tp0/dlg0/backlog0/cancel0"
    | "stun" -> "pending=0/0"
    | _ -> "-")
