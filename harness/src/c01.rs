//! C01: print -> parse round trips of SIP values built through the public API.
//!   uri  : <sips>|<user hex/->|<pw hex/->|<host>|<port/->|<uri params>|<header params>   ctx
//!          params: ';'-separated  name-hex[=value-hex]
//!          ctx: none | requri | fromto | contact | contactreg | routing
//!          -> T1=<hex printed> D1=<dump of the parsed text | ERR> T2=<hex reprint>
//!   na   : kind(fromto|contact|route) | display hex/- | <uri fields as above, '!'-separated> | tag hex/- | params
//!   meth : <token hex> -> name printed, known(0/1)
//!   num  : header kind + numbers -> printed, parsed numbers
//!   msg  : start line hex | headers (name hex=value hex, ';'-separated, in order) | body hex
use crate::common::*;
use bytes::Bytes;
use bytesstr::BytesStr;
use sip_core::transport::{parse_complete, CompleteItem};
use sip_types::header::typed::*;
use sip_types::host::{Host, HostPort};
use sip_types::msg::{MessageLine, RequestLine, StatusLine};
use sip_types::parse::Parser;
use sip_types::print::{AppendCtx, PrintCtx, UriContext};
use sip_types::uri::params::{Param, Params, CPS, HPS};
use sip_types::uri::sip::{SipUri, UserPart, UserPw};
use sip_types::uri::NameAddr;
use sip_types::{Code, Headers, Method, Name};
use std::str::FromStr;

fn hx(s: &str) -> String {
    if s.is_empty() {
        "''".into()
    } else {
        hex(s.as_bytes())
    }
}

fn unhx(s: &str) -> String {
    if s == "''" {
        return String::new();
    }
    String::from_utf8(unhex(s)).unwrap()
}

fn params_of<S: sip_types::uri::params::ParamsSpec>(spec: &str) -> Params<S> {
    let mut p = Params::<S>::new();
    for e in spec.split(';').filter(|s| !s.is_empty()) {
        let mut it = e.splitn(2, '=');
        let name = unhx(it.next().unwrap());
        match it.next() {
            Some(v) => p.push(Param::value(name, unhx(v))),
            None => p.push(Param::name(name)),
        }
    }
    p
}

fn host_of(s: &str) -> Host {
    if let Some(inner) = s.strip_prefix('[') {
        Host::IP6(inner.trim_end_matches(']').parse().unwrap())
    } else if let Ok(ip) = s.parse::<std::net::Ipv4Addr>() {
        Host::IP4(ip)
    } else {
        Host::Name(BytesStr::from(s.to_string()))
    }
}

fn uri_of(f: &[&str]) -> SipUri {
    let host_port = HostPort { host: host_of(f[3]), port: f[4].parse().ok() };
    let mut uri = SipUri::new(host_port).sips(f[0] == "1");
    uri.user_part = match (f[1], f[2]) {
        ("-", _) => UserPart::Empty,
        (u, "-") => UserPart::User(unhx(u).into()),
        (u, p) => UserPart::UserPw(Box::new(UserPw { user: unhx(u).into(), password: unhx(p).into() })),
    };
    uri.uri_params = params_of::<CPS>(f[5]);
    uri.header_params = params_of::<HPS>(f[6]);
    uri
}

fn dump_params<S: sip_types::uri::params::ParamsSpec>(p: &Params<S>) -> String {
    // Params keeps its vector private: print through a filter that records the names, values via get_val
    let names_cell: std::cell::RefCell<Vec<String>> = Default::default();
    let _ = p
        .filtered_print(|n| {
            names_cell.borrow_mut().push(n.to_string());
            false
        })
        .to_string();
    let names = names_cell.into_inner();
    // duplicates: get_val returns the first; good enough for generated (distinct) names
    names
        .iter()
        .map(|n| match p.get(n).and_then(|x| x.value.as_ref()) {
            Some(v) => format!("{}={}", hx(n), hx(v)),
            None => hx(n),
        })
        .collect::<Vec<_>>()
        .join(";")
}

fn dump_uri(u: &SipUri) -> String {
    let (user, pw) = match &u.user_part {
        UserPart::Empty => ("-".to_string(), "-".to_string()),
        UserPart::User(x) => (hx(x), "-".to_string()),
        UserPart::UserPw(b) => (hx(&b.user), hx(&b.password)),
    };
    format!(
        "{}|{}|{}|{}|{}|{}|{}",
        u.sips as u8,
        user,
        pw,
        u.host_port.host,
        u.host_port.port.map(|p| p.to_string()).unwrap_or("-".into()),
        dump_params(&u.uri_params),
        dump_params(&u.header_params)
    )
}

fn ctx_of<'a>(name: &str, register: &'a Method) -> PrintCtx<'a> {
    match name {
        "requri" => PrintCtx { method: None, uri: Some(UriContext::ReqUri) },
        "fromto" => PrintCtx { method: None, uri: Some(UriContext::FromTo) },
        "contact" => PrintCtx { method: None, uri: Some(UriContext::Contact) },
        "contactreg" => PrintCtx { method: Some(register), uri: Some(UriContext::Contact) },
        "routing" => PrintCtx { method: None, uri: Some(UriContext::Routing) },
        _ => PrintCtx::default(),
    }
}


/// print a typed header through Headers, parse it back through parse_complete + Headers, print again:
/// T1 = printed value, D = "same" when the Debug form of the parsed value equals the original's, T2 = reprint
fn typed_rt<H>(name: Name, v: &H) -> String
where
    H: sip_types::header::DecodeValues + sip_types::header::ExtendValues + std::fmt::Debug,
{
    let mut h = Headers::new();
    h.insert_type(name.clone(), v);
    let t1 = h.to_string();
    let msg = format!("OPTIONS sip:x SIP/2.0\r\n{}\r\n", t1);
    let parsed = match parse_complete(Parser::default(), msg.as_bytes()) {
        Ok(CompleteItem::Sip { headers, .. }) => headers,
        _ => return format!("T1={}\tD=UNPARSED-MESSAGE", hex(t1.as_bytes())),
    };
    match parsed.get::<H>(name.clone()) {
        Ok(v2) => {
            let mut h2 = Headers::new();
            h2.insert_type(name, &v2);
            let d1 = format!("{:?}", v);
            let d2 = format!("{:?}", v2);
            format!("T1={}\tD={}\tT2={}", hex(t1.as_bytes()), if d1 == d2 { "same".to_string() } else { format!("{}<>{}", hex(d1.as_bytes()), hex(d2.as_bytes())) }, hex(h2.to_string().as_bytes()))
        }
        Err(_) => format!("T1={}\tD=ERR", hex(t1.as_bytes())),
    }
}

fn bs(s: &str) -> BytesStr {
    BytesStr::from(s.to_string())
}

fn opt_bs(s: &str) -> Option<BytesStr> {
    if s == "-" { None } else { Some(bs(&unhx(s))) }
}

fn algorithm_of(s: &str) -> Algorithm {
    match s {
        "MD5" => Algorithm::MD5,
        "MD5-sess" => Algorithm::MD5Sess,
        "SHA-256" => Algorithm::SHA256,
        "SHA-256-sess" => Algorithm::SHA256Sess,
        "SHA-512-256" => Algorithm::SHA512256,
        "SHA-512-256-sess" => Algorithm::SHA512256Sess,
        o => Algorithm::Other(bs(o)),
    }
}

fn qop_of(s: &str) -> QopOption {
    match s {
        "auth" => QopOption::Auth,
        "auth-int" => QopOption::AuthInt,
        o => QopOption::Other(bs(o)),
    }
}

/// typed headers outside name-addr / numbers: fields separated by '|', strings hex encoded
fn run_typed(kind: &str, spec: &str) -> String {
    let f: Vec<&str> = spec.split('|').collect();
    match kind {
        "authr" => {
            // user | realm | nonce | uri | response | algorithm | opaque | qop | cnonce | nc | userhash | proxy
            let v = AuthResponse::Digest(DigestResponse {
                username: Username::new(bs(&unhx(f[0]))),
                realm: bs(&unhx(f[1])),
                nonce: bs(&unhx(f[2])),
                uri: bs(&unhx(f[3])),
                response: bs(&unhx(f[4])),
                algorithm: algorithm_of(f[5]),
                opaque: opt_bs(f[6]),
                qop_response: if f[7] == "-" { None } else { Some(QopResponse { qop: qop_of(f[7]), cnonce: bs(&unhx(f[8])), nc: f[9].parse().unwrap() }) },
                userhash: f[10] == "1",
                other: vec![],
            });
            typed_rt(if f[11] == "1" { Name::PROXY_AUTHORIZATION } else { Name::AUTHORIZATION }, &v)
        }
        "authc" => {
            // realm | domain | nonce | opaque | stale | algorithm | qop list (comma) | userhash | proxy
            let v = AuthChallenge::Digest(DigestChallenge {
                realm: bs(&unhx(f[0])),
                domain: opt_bs(f[1]),
                nonce: bs(&unhx(f[2])),
                opaque: opt_bs(f[3]),
                stale: f[4] == "1",
                algorithm: algorithm_of(f[5]),
                qop: f[6].split(',').filter(|x| !x.is_empty()).map(qop_of).collect(),
                userhash: f[7] == "1",
                other: vec![],
            });
            typed_rt(if f[8] == "1" { Name::PROXY_AUTHENTICATE } else { Name::WWW_AUTHENTICATE }, &v)
        }
        "via" => {
            // transport | host | port | params
            let v = Via { transport: bs(f[0]), sent_by: HostPort { host: host_of(f[1]), port: if f[2] == "-" { None } else { Some(f[2].parse().unwrap()) } }, params: params_of::<CPS>(f[3]) };
            typed_rt(Name::VIA, &v)
        }
        "replaces" => {
            let v = Replaces { call_id: bs(&unhx(f[0])), from_tag: bs(&unhx(f[1])), to_tag: bs(&unhx(f[2])), early_only: f[3] == "1" };
            typed_rt(Name::REPLACES, &v)
        }
        "retry" => {
            let mut v = RetryAfter::new(f[0].parse().unwrap());
            v.params = params_of::<CPS>(f[1]);
            v.comment = opt_bs(f[2]);
            typed_rt(Name::RETRY_AFTER, &v)
        }
        "substate" => {
            let state = match f[0] { "active" => SubStateValue::Active, "pending" => SubStateValue::Pending, _ => SubStateValue::Terminated };
            let reason = match f[2] {
                "-" => None,
                "deactivated" => Some(EventReasonValue::Deactivated), "probation" => Some(EventReasonValue::Probation), "rejected" => Some(EventReasonValue::Rejected),
                "timeout" => Some(EventReasonValue::Timeout), "giveup" => Some(EventReasonValue::GiveUp), "noresource" => Some(EventReasonValue::NoResource),
                "invariant" => Some(EventReasonValue::Invariant), o => Some(EventReasonValue::Other(bs(o))),
            };
            let v = SubscriptionState { state, expires: f[1].parse().ok(), reason, retry_after: f[3].parse().ok(), params: params_of::<CPS>(f[4]) };
            typed_rt(Name::SUBSCRIPTION_STATE, &v)
        }
        "callid" => typed_rt(Name::CALL_ID, &CallID(bs(&unhx(f[0])))),
        "ctype" => typed_rt(Name::CONTENT_TYPE, &ContentType(bs(&unhx(f[0])))),
        "event" => typed_rt(Name::EVENT, &Event(bs(&unhx(f[0])))),
        "supported" => typed_rt(Name::SUPPORTED, &f[0].split(',').filter(|x| !x.is_empty()).map(|x| Supported(bs(x))).collect::<Vec<_>>()),
        "require" => typed_rt(Name::REQUIRE, &f[0].split(',').filter(|x| !x.is_empty()).map(|x| Require(bs(x))).collect::<Vec<_>>()),
        "allow" => typed_rt(Name::ALLOW, &f[0].split(',').filter(|x| !x.is_empty()).map(|x| Allow(Method::from(x))).collect::<Vec<_>>()),
        "allowev" => typed_rt(Name::ALLOW_EVENTS, &f[0].split(',').filter(|x| !x.is_empty()).map(|x| AllowEvents(bs(x))).collect::<Vec<_>>()),
        "accept" => typed_rt(Name::ACCEPT, &f[0].split(',').filter(|x| !x.is_empty()).map(|x| Accept(bs(x))).collect::<Vec<_>>()),
        other => format!("bad typed kind {}", other),
    }
}

pub fn run(cases: &[Vec<String>]) {
    for case in cases {
        let id = case[0].clone();
        take_panics();
        let c = case.clone();
        let out = match std::panic::catch_unwind(move || run_case(&c)) {
            Ok(s) => s,
            Err(e) => {
                let msg = if let Some(s) = e.downcast_ref::<&str>() {
                    s.to_string()
                } else if let Some(s) = e.downcast_ref::<String>() {
                    s.clone()
                } else {
                    "panic".to_string()
                };
                format!("PANIC {}", msg)
            }
        };
        let panics = take_panics();
        if panics.is_empty() {
            println!("{}\t{}", id, out);
        } else {
            println!("{}\t{}\tPANIC {}", id, out, panics.join(" | "));
        }
    }
}

fn run_case(case: &[String]) -> String {
    let register = Method::REGISTER;
    match case[2].as_str() {
        "uri" => {
            let f: Vec<&str> = case[3].split('|').collect();
            let uri = uri_of(&f);
            let ctx = ctx_of(&case[4], &register);
            let t1 = uri.print_ctx(ctx).to_string();
            let (d1, t2) = match SipUri::from_str(&t1) {
                Ok(u2) => (dump_uri(&u2), u2.print_ctx(ctx).to_string()),
                Err(_) => ("ERR".to_string(), String::new()),
            };
            format!("T1={}\tD1={}\tT2={}", hex(t1.as_bytes()), d1, hex(t2.as_bytes()))
        }
        "na" => {
            // kind | display | uri fields ('!' separated) | tag | params
            let f: Vec<&str> = case[3].split('|').collect();
            let uf: Vec<&str> = f[2].split('!').collect();
            let uri = uri_of(&uf);
            let na = if f[1] == "-" { NameAddr::uri(uri) } else { NameAddr::new(unhx(f[1]), uri) };
            let mut headers = Headers::new();
            let kind = f[0];
            let name = match kind {
                "from" => Name::FROM,
                "to" => Name::TO,
                "contact" => Name::CONTACT,
                "route" => Name::ROUTE,
                _ => Name::RECORD_ROUTE,
            };
            match kind {
                "from" | "to" => {
                    let mut ft = FromTo::new(na, if f[3] == "-" { None } else { Some(unhx(f[3]).into()) });
                    ft.params = params_of::<CPS>(f[4]);
                    headers.insert_type(name.clone(), &ft);
                }
                "contact" => {
                    let mut c = Contact::new(na);
                    c.params = params_of::<CPS>(f[4]);
                    headers.insert_named(&c);
                }
                _ => {
                    let mut r = Routing { uri: na, params: params_of::<CPS>(f[4]) };
                    r.params = params_of::<CPS>(f[4]);
                    headers.insert_type(name.clone(), &r);
                }
            }
            let t1 = headers.iter().map(|(_, v)| v.to_string()).collect::<Vec<_>>().join(",");
            // through the wire form: a message with that header
            let msg = format!("OPTIONS sip:x SIP/2.0\r\n{}: {}\r\n\r\n", name.as_print_str(), t1);
            let parsed = match parse_complete(Parser::default(), msg.as_bytes()) {
                Ok(CompleteItem::Sip { headers, .. }) => headers,
                _ => return format!("T1={}\tD1=UNPARSED-MESSAGE", hex(t1.as_bytes())),
            };
            let dump_na = |na: &NameAddr| -> String {
                let u = na.uri.downcast_ref::<SipUri>().map(dump_uri).unwrap_or("OTHER-URI".into());
                format!("{}|{}", na.name.as_ref().map(|n| hx(n)).unwrap_or("-".into()), u.replace('|', "!"))
            };
            let d1 = match kind {
                "from" | "to" => match parsed.get::<FromTo>(name.clone()) {
                    Ok(ft) => format!("{}|{}|{}", dump_na(&ft.uri), ft.tag.as_ref().map(|t| hx(t)).unwrap_or("-".into()), dump_params(&ft.params)),
                    Err(_) => "ERR".into(),
                },
                "contact" => match parsed.get_named::<Contact>() {
                    Ok(c) => format!("{}|-|{}", dump_na(&c.uri), dump_params(&c.params)),
                    Err(_) => "ERR".into(),
                },
                _ => match parsed.get::<Routing>(name.clone()) {
                    Ok(r) => format!("{}|-|{}", dump_na(&r.uri), dump_params(&r.params)),
                    Err(_) => "ERR".into(),
                },
            };
            format!("T1={}\tD1={}", hex(t1.as_bytes()), d1)
        }
        "meth" => {
            let tok = unhx(&case[3]);
            let m = Method::from(tok.as_str());
            let known = [
                Method::INVITE, Method::ACK, Method::CANCEL, Method::BYE, Method::REGISTER, Method::MESSAGE, Method::UPDATE,
                Method::PRACK, Method::OPTIONS, Method::SUBSCRIBE, Method::NOTIFY, Method::PUBLISH, Method::INFO, Method::REFER,
            ];
            let k = known.iter().position(|x| *x == m);
            let kof = |m: &Method| known.iter().position(|x| x == m).map(|i| i.to_string()).unwrap_or("-".into());
            // the token on the wire and back: as the request line's method, in CSeq and in RAck
            let mut h = Headers::new();
            h.insert_named(&CSeq::new(7, m.clone()));
            h.insert_named(&RAck::new(1, 7, m.clone()));
            let hl = h.iter().map(|(n, v)| format!("{}: {}", n.as_print_str(), v)).collect::<Vec<_>>().join("\r\n");
            let msg = format!("{} sip:bob@example.org SIP/2.0\r\n{}\r\n\r\n", m, hl);
            let back = match parse_complete(Parser::default(), msg.as_bytes()) {
                Ok(CompleteItem::Sip { line: MessageLine::Request(l), headers, .. }) => {
                    let c = headers.get_named::<CSeq>().map(|c| format!("{}/{}", hex(c.method.to_string().as_bytes()), kof(&c.method))).unwrap_or("ERR".into());
                    let r = headers.get_named::<RAck>().map(|c| format!("{}/{}", hex(c.method.to_string().as_bytes()), kof(&c.method))).unwrap_or("ERR".into());
                    format!("{}/{},{},{}", hex(l.method.to_string().as_bytes()), kof(&l.method), c, r)
                }
                _ => "UNPARSED".to_string(),
            };
            format!("P={}\tK={}\tR={}", hex(m.to_string().as_bytes()), k.map(|i| i.to_string()).unwrap_or("-".into()), back)
        }
        "host" => {
            // a host text behind "sip:": which alternative of Host::parse takes it, and how much of it
            let text = unhx(&case[3]);
            match SipUri::from_str(&format!("sip:{}", text)) {
                Ok(u) => match u.host_port.host {
                    Host::IP4(a) => format!("IP4:{}:{}", a, u.host_port.port.map(|p| p.to_string()).unwrap_or("-".into())),
                    Host::IP6(_) => "IP6".into(),
                    Host::Name(n) => format!("NAME:{}", hx(&n)),
                },
                Err(_) => "ERR".into(),
            }
        }
        "typed" => run_typed(case[3].as_str(), case[4].as_str()),
        "num" => {
            // kind and decimal arguments; printed through Headers, parsed back through Headers
            let a: Vec<&str> = case[4].split(',').collect();
            let mut h = Headers::new();
            let n32 = |i: usize| -> u32 { a[i].parse().unwrap() };
            match case[3].as_str() {
                "cseq" => h.insert_named(&CSeq::new(n32(0), Method::from(a[1]))),
                "rack" => h.insert_named(&RAck::new(n32(0), n32(1), Method::from(a[2]))),
                "rseq" => h.insert_named(&RSeq(n32(0))),
                "expires" => h.insert_named(&Expires(n32(0))),
                "minexpires" => h.insert_named(&MinExpires(n32(0))),
                "maxfwd" => h.insert_named(&MaxForwards(n32(0))),
                "cl" => h.insert_named(&ContentLength(a[0].parse().unwrap())),
                "minse" => h.insert_named(&MinSe(n32(0))),
                "se" => h.insert_named(&SessionExpires {
                    delta_secs: n32(0),
                    refresher: match a[1] { "uac" => Refresher::Uac, "uas" => Refresher::Uas, _ => Refresher::Unspecified },
                }),
                other => return format!("bad num kind {}", other),
            }
            let t1 = h.iter().map(|(n, v)| format!("{}: {}", n.as_print_str(), v)).collect::<Vec<_>>().join("\r\n");
            let msg = format!("OPTIONS sip:x SIP/2.0\r\n{}\r\n\r\n", t1);
            let parsed = match parse_complete(Parser::default(), msg.as_bytes()) {
                Ok(CompleteItem::Sip { headers, .. }) => headers,
                _ => return format!("T1={}\tD1=UNPARSED-MESSAGE", hex(t1.as_bytes())),
            };
            let d1 = match case[3].as_str() {
                "cseq" => parsed.get_named::<CSeq>().map(|c| format!("{},{}", c.cseq, c.method)).unwrap_or("ERR".into()),
                "rack" => parsed.get_named::<RAck>().map(|c| format!("{},{},{}", c.rack, c.cseq, c.method)).unwrap_or("ERR".into()),
                "rseq" => parsed.get_named::<RSeq>().map(|c| c.0.to_string()).unwrap_or("ERR".into()),
                "expires" => parsed.get_named::<Expires>().map(|c| c.0.to_string()).unwrap_or("ERR".into()),
                "minexpires" => parsed.get_named::<MinExpires>().map(|c| c.0.to_string()).unwrap_or("ERR".into()),
                "maxfwd" => parsed.get_named::<MaxForwards>().map(|c| c.0.to_string()).unwrap_or("ERR".into()),
                "cl" => parsed.get_named::<ContentLength>().map(|c| c.0.to_string()).unwrap_or("ERR".into()),
                "minse" => parsed.get_named::<MinSe>().map(|c| c.0.to_string()).unwrap_or("ERR".into()),
                _ => parsed
                    .get_named::<SessionExpires>()
                    .map(|c| format!("{},{}", c.delta_secs, match c.refresher { Refresher::Uac => "uac", Refresher::Uas => "uas", Refresher::Unspecified => "-" }))
                    .unwrap_or("ERR".into()),
            };
            format!("T1={}\tD1={}", hex(t1.as_bytes()), d1)
        }
        "msg" => {
            // start line | ordered headers | body: a Request / Response built through the public API, put on the
            // wire by Endpoint::send_outgoing_request / _response over a mock transport, parsed by parse_complete
            let f: Vec<&str> = case[3].split('|').collect();
            let mut headers = Headers::new();
            for e in f[1].split(';').filter(|s| !s.is_empty()) {
                let mut it = e.splitn(2, '=');
                let n = unhx(it.next().unwrap());
                let v = unhx(it.next().unwrap_or(""));
                headers.insert(Name::from(n.clone()), v.clone());
            }
            let body = unhex(f.get(2).copied().unwrap_or(""));
            let line = unhx(f[0]);
            let wire: WireLog = Default::default();
            let w2 = wire.clone();
            let sent = run_async_case(1, move || async move {
                let clock = Clock::new();
                let tp = sip_core::transport::TpHandle::new(MockTp::udp(w2, clock.0));
                let mut builder = sip_core::Endpoint::builder();
                builder.add_unmanaged_transport(tp.clone());
                let endpoint = builder.build();
                let dest: std::net::SocketAddr = "10.9.9.9:5060".parse().unwrap();
                let parts = sip_core::transport::OutgoingParts { transport: tp.clone(), destination: dest, buffer: Default::default() };
                let text = format!("{}\r\nX-Pad: long enough not to be taken for a truncated STUN header\r\n\r\n", line);
                // a status line without a reason phrase is a value of the API (reason: None), built directly
                let bare_code = line.strip_prefix("SIP/2.0 ").filter(|c| !c.is_empty() && c.bytes().all(|b| b.is_ascii_digit())).and_then(|c| c.parse::<u16>().ok());
                if let Some(code) = bare_code {
                    let line = StatusLine { code: Code::from(code), reason: None };
                    let mut m = sip_core::transport::OutgoingResponse { msg: sip_core::Response { line, headers, body: Bytes::from(body) }, parts };
                    return match endpoint.send_outgoing_response(&mut m).await { Ok(()) => "ok".into(), Err(e) => format!("SEND-ERR {}", e) };
                }
                match parse_complete(endpoint.parser(), text.as_bytes()) {
                    Ok(CompleteItem::Sip { line: MessageLine::Request(line), .. }) => {
                        let mut m = sip_core::transport::OutgoingRequest { msg: sip_core::Request { line, headers, body: Bytes::from(body) }, parts };
                        match endpoint.send_outgoing_request(&mut m).await { Ok(()) => "ok".into(), Err(e) => format!("SEND-ERR {}", e) }
                    }
                    Ok(CompleteItem::Sip { line: MessageLine::Response(line), .. }) => {
                        let mut m = sip_core::transport::OutgoingResponse { msg: sip_core::Response { line, headers, body: Bytes::from(body) }, parts };
                        match endpoint.send_outgoing_response(&mut m).await { Ok(()) => "ok".into(), Err(e) => format!("SEND-ERR {}", e) }
                    }
                    _ => "BAD-START-LINE".into(),
                }
            });
            match sent {
                Ok(s) if s == "ok" => {}
                Ok(s) => return s,
                Err(e) => return format!("PANIC {}", e),
            }
            let bytes = match wire.lock().first() { Some(w) => w.2.clone(), None => return "NOTHING-SENT".into() };
            match parse_complete(Parser::default(), &bytes) {
                Ok(CompleteItem::Sip { line, headers, body: b2, .. }) => {
                    let hs: Vec<String> = headers
                        .iter()
                        .map(|(n, v)| format!("{}={}", hx(n.as_print_str()), hx(&v.to_string())))
                        .collect();
                    format!("T={}\tL={}\tH={}\tB={}", hex(&bytes), hx(&line.default_print_ctx().to_string()), hs.join(";"), hex(&b2))
                }
                _ => format!("T={}\tUNPARSED", hex(&bytes)),
            }
        }
        other => format!("bad kind {}", other),
    }
}

#[allow(dead_code)]
fn _unused(_: RequestLine, _: StatusLine, _: Code, _: MessageLine, _: Bytes) {}
