//! UA-level scenarios (C08, C12, C13, C17, C02): acceptor / initiator / session driven by a timed
//! script against a mock datagram transport under the paused clock.
use crate::common::*;
use crate::tsx_client::header_lines;
use parking_lot::Mutex;
use sip_core::transport::TpHandle;
use sip_core::{Endpoint, IncomingRequest, Layer, LayerKey, MayTake};
use sip_types::header::typed::Contact;
use sip_types::uri::NameAddr;
use sip_types::{Code, Method};
use sip_ua::dialog::{Dialog, DialogLayer};
use sip_ua::invite::acceptor::Acceptor;
use sip_ua::invite::initiator::{Early, EarlyResponse, Initiator, Response};
use sip_ua::invite::session::{Event, Session};
use sip_ua::invite::InviteLayer;
use std::net::SocketAddr;
use std::sync::Arc;
use std::time::Duration;
use tokio::sync::mpsc;

type EvLog = Arc<Mutex<Vec<(u64, u64, String)>>>;

/// dialogs of the sessions the application holds (script action `between`: another request created in the dialog at that instant)
static SESSION_DIALOGS: Mutex<Vec<Arc<Dialog>>> = Mutex::new(Vec::new());

/// abort handles of tasks spawned from inside other tasks (they own Session / Early objects)
static SUBTASKS: Mutex<Vec<tokio::task::AbortHandle>> = Mutex::new(Vec::new());
fn track<T: Send + 'static>(h: tokio::task::JoinHandle<T>) {
    SUBTASKS.lock().push(h.abort_handle());
}

struct AppLayer {
    invites: mpsc::UnboundedSender<IncomingRequest>,
    log: EvLog,
    start: tokio::time::Instant,
}

#[async_trait::async_trait]
impl Layer for AppLayer {
    fn name(&self) -> &'static str {
        "app"
    }
    async fn receive(&self, endpoint: &Endpoint, request: MayTake<'_, IncomingRequest>) {
        let ms = (tokio::time::Instant::now() - self.start).as_millis() as u64;
        let has_totag = request.base_headers.to.tag.is_some();
        if request.line.method == Method::INVITE && !has_totag {
            self.log.lock().push((next_seq(), ms, "app-invite".into()));
            let _ = self.invites.send(request.take());
        } else if request.line.method == Method::OPTIONS {
            let mut req = request.take();
            let resp = endpoint.create_response(&req, Code::OK, None);
            let tsx = endpoint.create_server_tsx(&mut req);
            let _ = tsx.respond(resp).await;
        }
    }
}

pub fn run(cases: &[Vec<String>]) {
    for case in cases {
        let id = case[0].clone();
        let c = case.clone();
        let seed: u64 = c.get(5).and_then(|s| s.parse().ok()).unwrap_or(1);
        take_panics();
        let res = run_async_case(seed, move || run_case(c));
        let panics = take_panics();
        match res {
            Ok(s) if panics.is_empty() => println!("{}\t{}", id, s),
            Ok(s) => println!("{}\t{}\tPANIC {}", id, s, panics.join(" | ")),
            Err(e) => println!("{}\tPANIC {} {}", id, e, panics.join(" | ")),
        }
    }
}

async fn settle_now() {
    for _ in 0..120 {
        tokio::task::yield_now().await;
    }
}

fn now_ms(start: tokio::time::Instant) -> u64 {
    (tokio::time::Instant::now() - start).as_millis() as u64
}

fn contact(ep: &Endpoint, s: &str) -> Contact {
    Contact::new(NameAddr::uri(ep.parse_uri(s).unwrap()))
}

/// drive a session: log every event with its virtual time; answer re-INVITEs and BYEs by default
async fn drive_session(mut session: Session, log: EvLog, start: tokio::time::Instant, tag: String, refresh_mode: String) {
    let mut refreshes = 0;
    if refresh_mode.contains("between") {
        SESSION_DIALOGS.lock().push(session.dialog.clone());
    }
    if refresh_mode.contains("probe") {
        // C11: a request created inside the freshly established dialog (request URI, Route lines as they would go out)
        use sip_types::print::AppendCtx;
        let r = session.dialog.create_request(Method::OPTIONS);
        let text = r.headers.to_string();
        let routes: Vec<String> = text
            .split("\r\n")
            .filter(|l| l.to_ascii_lowercase().starts_with("route:"))
            .flat_map(|l| l.splitn(2, ':').nth(1).unwrap_or("").split(',').map(|x| x.trim().trim_matches(|c| c == '<' || c == '>').to_string()).collect::<Vec<_>>())
            .collect();
        let to_tag = text
            .split("\r\n")
            .find(|l| l.to_ascii_lowercase().starts_with("to:"))
            .and_then(|l| l.split(";tag=").nth(1))
            .map(|t| t.split(';').next().unwrap_or("").to_string())
            .unwrap_or("-".into());
        log.lock().push((next_seq(), now_ms(start), format!("probe:{}:uri={}/route={}/totag={}", tag, r.line.uri.default_print_ctx(), routes.join("+"), to_tag).replace(' ', "_")));
    }
    loop {
        let ev = session.drive().await;
        let t = now_ms(start);
        match ev {
            Ok(Event::RefreshNeeded(r)) => {
                log.lock().push((next_seq(), t, format!("refresh-needed:{}", tag)));
                // a refresh takes at least a round trip; also bounds the loop for zero-length timers
                refreshes += 1;
                if refreshes > 1000 {
                    log.lock().push((next_seq(), t, format!("refresh-flood:{}", tag)));
                    break;
                }
                tokio::time::sleep(Duration::from_millis(1)).await;
                if refresh_mode.starts_with("do") {
                    let res = r.process_default().await;
                    log.lock().push((next_seq(), now_ms(start), format!("refresh-done:{}:{}", tag, res.is_ok())));
                }
            }
            Ok(Event::ReInviteReceived(r)) => {
                log.lock().push((next_seq(), t, format!("reinvite:{}", tag)));
                let resp = r.session.dialog.create_response(&r.invite, Code::OK, None);
                if let Ok(resp) = resp {
                    let res = r.respond_success(resp).await;
                    log.lock().push((next_seq(), now_ms(start), format!("reinvite-done:{}:{}", tag, res.is_ok())));
                }
            }
            Ok(Event::Bye(b)) => {
                log.lock().push((next_seq(), t, format!("bye-received:{}", tag)));
                let _ = b.process_default().await;
            }
            Ok(Event::Terminated) => {
                log.lock().push((next_seq(), t, format!("terminated:{}", tag)));
                break;
            }
            Err(e) => {
                log.lock().push((next_seq(), t, format!("session-error:{}:{:?}", tag, e).replace(' ', "_")));
                break;
            }
        }
    }
}

async fn drive_early(mut early: Early, log: EvLog, start: tokio::time::Instant, tag: String, refresh_mode: String) {
    if let Some(ms) = refresh_mode.split("+slow=").nth(1).and_then(|x| x.split('+').next()).and_then(|x| x.parse::<u64>().ok()) {
        // C13: an application that looks at its early dialog late (the responses queue up meanwhile)
        tokio::time::sleep_until(start + Duration::from_millis(ms)).await;
    }
    loop {
        match early.receive().await {
            Ok(EarlyResponse::Provisional(r, rseq)) => {
                log.lock().push((next_seq(), now_ms(start), format!("early-prov:{}:{}:{}", tag, r.line.code.into_u16(), rseq.map(|r| r.0.to_string()).unwrap_or("-".into()))));
            }
            Ok(EarlyResponse::Success(session, r)) => {
                let stag = r.base_headers.to.tag.as_ref().map(|t| t.to_string()).unwrap_or_default();
                log.lock().push((next_seq(), now_ms(start), format!("early-session:{}:{}", tag, describe_dialog(&session.dialog))));
                track(tokio::spawn(drive_session(session, log.clone(), start, stag, refresh_mode.clone())));
                break;
            }
            Ok(EarlyResponse::Terminated) => {
                log.lock().push((next_seq(), now_ms(start), format!("early-terminated:{}", tag)));
                break;
            }
            Err(e) => {
                log.lock().push((next_seq(), now_ms(start), format!("early-error:{}:{:?}", tag, e).replace(' ', "_")));
                break;
            }
        }
    }
}

fn describe_dialog(d: &Dialog) -> String {
    use sip_types::print::AppendCtx;
    format!(
        "cid={}/ltag={}/ptag={}/target={}/routes={}",
        d.call_id.0,
        d.local_fromto.tag.as_ref().map(|t| t.to_string()).unwrap_or("-".into()),
        d.peer_fromto.tag.as_ref().map(|t| t.to_string()).unwrap_or("-".into()),
        d.peer_contact.uri.uri.default_print_ctx(),
        d.route_set.iter().map(|r| r.uri.uri.default_print_ctx().to_string()).collect::<Vec<_>>().join("+")
    )
}

/// one line per message on the wire
fn describe_wire(bytes: &[u8]) -> String {
    let text = String::from_utf8_lossy(bytes).to_string();
    let first = text.split("\r\n").next().unwrap_or("").replace(' ', "_");
    let h = |n: &str| header_lines(bytes, n).first().map(|l| l.splitn(2, ':').nth(1).unwrap_or("").trim().to_string()).unwrap_or("-".into());
    let via = h("via");
    let branch = via.split("branch=").nth(1).unwrap_or("-").split(';').next().unwrap_or("-").to_string();
    let to = h("to");
    let totag = to.split("tag=").nth(1).unwrap_or("-").split(';').next().unwrap_or("-").to_string();
    format!(
        "{}|cseq={}|branch={}|totag={}|rseq={}|se={}|rack={}|nvia={}",
        first,
        h("cseq").replace(' ', "_"),
        branch,
        totag,
        h("rseq"),
        h("session-expires").replace(' ', ""),
        h("rack").replace(' ', "_"),
        header_lines(bytes, "via").len()
    )
}

pub async fn run_case(case: Vec<String>) -> String {
    // id prop role setup(hex extra headers or config) script [seed]
    if case[2] == "reg" {
        return crate::c17reg::run_case(case).await;
    }
    SESSION_DIALOGS.lock().clear();
    let role = case[2].clone();
    let setup = case[3].clone();
    let script: Vec<(u64, Vec<String>)> = case[4]
        .split(',')
        .filter(|s| !s.is_empty())
        .map(|a| {
            let p: Vec<String> = a.split(':').map(|x| x.to_string()).collect();
            (p[0].parse().unwrap(), p[1..].to_vec())
        })
        .collect();

    let clock = Clock::new();
    let start = clock.0;
    let wire: WireLog = Default::default();
    let mut mock = MockTp::udp(wire.clone(), start);
    if setup.split(';').any(|kv| kv == "tcp") {
        // a connection-style (reliable) transport: nothing is retransmitted, the wait timers of RFC 6026 apply all the same
        mock.reliable = true;
        mock.name = "TCP";
    }
    if let Some(ms) = setup.split(';').find_map(|kv| kv.strip_prefix("linger2xx=")).and_then(|v| v.parse::<u64>().ok()) {
        // the send of a 2xx to an INVITE returns only this long after the bytes are out (the peer's ACK can come meanwhile)
        mock.linger_2xx_ms.store(ms, std::sync::atomic::Ordering::SeqCst);
    }
    let tp = TpHandle::new(mock);
    let source: SocketAddr = "10.9.9.9:5060".parse().unwrap();
    let log: EvLog = Default::default();
    let (itx, mut irx) = mpsc::unbounded_channel();
    let mut builder = Endpoint::builder();
    builder.add_unmanaged_transport(tp.clone());
    let dialog_layer: LayerKey<DialogLayer> = builder.add_layer(DialogLayer::default());
    let invite_layer: LayerKey<InviteLayer> = builder.add_layer(InviteLayer::default());
    builder.add_layer(AppLayer { invites: itx, log: log.clone(), start });
    let endpoint = builder.build();

    let acceptor: Arc<tokio::sync::Mutex<Option<Acceptor>>> = Default::default();
    // a final response the application built while the INVITE was still pending (op `prep:<code>`), sent by a later accept / reject
    let prepared: Arc<Mutex<Option<sip_core::transport::OutgoingResponse>>> = Default::default();
    let mut local_tag = String::new();
    // a caller that predates the magic cookie (RFC 2543 style branch): its INVITE, CANCEL and ACK share this branch as well
    let invite_branch = if setup.contains("lbranch") { "invite1" } else { "z9hG4bKinvite1" };
    let invite_cseq: u32 = setup.split(';').find_map(|kv| kv.strip_prefix("cseq=")).and_then(|v| v.parse().ok()).unwrap_or(314);
    let mut req_counter = 0;
    let mut cseq_counter = 0; // consecutive CSeq numbers for the peer's in-dialog requests (ACK re-uses one)
    let mut tasks: Vec<tokio::task::JoinHandle<()>> = vec![];
    let refresh_mode = format!("{}{}", if setup.contains("refresh=do") { "do" } else { "log" }, if setup.contains("probe") { "+probe" } else { "" })
        + if setup.contains("between") { "+between" } else { "" }
        + &setup.split(';').find_map(|kv| kv.strip_prefix("slowearly=")).map(|v| format!("+slow={}", v)).unwrap_or_default();

    // identifiers of the dialog as the peer sees it; on the UAC side they are read from our INVITE
    let uac_ids: Arc<Mutex<Option<(String, String)>>> = Default::default(); // (call-id, our tag)
    let uac_ids2 = uac_ids.clone();
    let is_uac = role == "uac";
    let indialog = move |method: &str, cseq: u32, branch: &str, totag: &str, extra: &str| -> Vec<u8> {
        if is_uac {
            if let Some((cid, ourtag)) = uac_ids2.lock().clone() {
                return format!(
                    "{m} sip:me@10.0.0.1 SIP/2.0\r\nVia: SIP/2.0/UDP 10.9.9.9:5060;branch={b}\r\nFrom: <sip:peer@10.9.9.9>;tag=tagA\r\nTo: <sip:me@example.org>;tag={tt}\r\nCall-ID: {cid}\r\nCSeq: {c} {m}\r\nMax-Forwards: 70\r\n{extra}Content-Length: 0\r\n\r\n",
                    m = method, b = branch, tt = ourtag, cid = cid, c = cseq, extra = extra
                )
                .into_bytes();
            }
        }
        format!(
            "{m} sip:me@10.0.0.1 SIP/2.0\r\nVia: SIP/2.0/UDP 10.9.9.9:5060;branch={b}\r\nFrom: <sip:peer@example.org>;tag=ptag\r\nTo: <sip:me@example.org>{tt}\r\nCall-ID: ua-call\r\nCSeq: {c} {m}\r\nMax-Forwards: 70\r\n{extra}Content-Length: 0\r\n\r\n",
            m = method, b = branch, tt = if totag.is_empty() { String::new() } else { format!(";tag={}", totag) }, c = cseq, extra = extra
        )
        .into_bytes()
    };

    for (t, a) in script {
        advance_to(&clock, t).await;
        match a[0].as_str() {
            // ---------------- UAS side ----------------
            "inv" => {
                let extra = a.get(1).map(|h| String::from_utf8(unhex(h)).unwrap()).unwrap_or_default();
                let text = indialog("INVITE", invite_cseq, invite_branch, "", &format!("Contact: <sip:peer@10.9.9.9>\r\n{}", extra));
                inject(&endpoint, &text, source, &tp);
                settle_now().await;
                if let Ok(inv) = irx.try_recv() {
                    match Dialog::new_server(endpoint.clone(), dialog_layer, &inv, contact(&endpoint, "sip:me@10.0.0.1")) {
                        Ok(d) => {
                            local_tag = d.local_fromto.tag.as_ref().unwrap().to_string();
                            match Acceptor::new(d, invite_layer, inv) {
                                Ok(acc) => *acceptor.lock().await = Some(acc),
                                Err(e) => log.lock().push((next_seq(), t, format!("acceptor-error:{:?}", e).replace(' ', "_"))),
                            }
                        }
                        Err(e) => log.lock().push((next_seq(), t, format!("dialog-error:{:?}", e).replace(' ', "_"))),
                    }
                }
            }
            "dupinv" => {
                let text = indialog("INVITE", invite_cseq, invite_branch, "", "Contact: <sip:peer@10.9.9.9>\r\n");
                inject(&endpoint, &text, source, &tp);
            }
            "prov" => {
                let code: u16 = a[1].parse().unwrap();
                let mut g = acceptor.lock().await;
                if let Some(acc) = g.as_mut() {
                    let r = match acc.create_response(Code::from(code), None).await {
                        Ok(resp) => acc.respond_provisional(resp).await.map_err(|e| format!("{:?}", e)),
                        Err(e) => Err(format!("{:?}", e)),
                    };
                    log.lock().push((next_seq(), now_ms(start), format!("prov-result:{}", r.map(|_| "ok".to_string()).unwrap_or_else(|e| e)).replace(' ', "_")));
                }
            }
            "provrel" => {
                let code: u16 = a[1].parse().unwrap();
                let acc = acceptor.clone();
                let lg = log.clone();
                tasks.push(tokio::spawn(async move {
                    let mut g = acc.lock().await;
                    if let Some(a) = g.as_mut() {
                        let r = match a.create_response(Code::from(code), None).await {
                            Ok(resp) => a.respond_provisional_reliable(resp).await.map(|_| ()).map_err(|e| format!("{:?}", e)),
                            Err(e) => Err(format!("{:?}", e)),
                        };
                        lg.lock().push((next_seq(), now_ms(start), format!("provrel-result:{}", r.map(|_| "ok".to_string()).unwrap_or_else(|e| e)).replace(' ', "_")));
                    }
                }));
            }
            "prep" => {
                let code: u16 = a[1].parse().unwrap();
                let g = acceptor.lock().await;
                if let Some(acc) = g.as_ref() {
                    if let Ok(resp) = acc.create_response(Code::from(code), None).await {
                        *prepared.lock() = Some(resp);
                    }
                }
            }
            "accept" => {
                let acc = acceptor.clone();
                let lg = log.clone();
                let rm = refresh_mode.clone();
                let prep = prepared.lock().take();
                tasks.push(tokio::spawn(async move {
                    let taken = acc.lock().await.take();
                    if let Some(a) = taken {
                        let resp = match prep {
                            Some(r) => Ok(r),
                            None => a.create_response(Code::OK, None).await,
                        };
                        match resp {
                            Ok(resp) => match a.respond_success(resp).await {
                                Ok((session, _ack)) => {
                                    lg.lock().push((next_seq(), now_ms(start), "accept-result:ok".into()));
                                    drive_session(session, lg.clone(), start, "uas".into(), rm).await;
                                }
                                Err(e) => lg.lock().push((next_seq(), now_ms(start), format!("accept-result:{:?}", e).replace(' ', "_"))),
                            },
                            Err(e) => lg.lock().push((next_seq(), now_ms(start), format!("accept-result:{:?}", e).replace(' ', "_"))),
                        }
                    } else {
                        lg.lock().push((next_seq(), now_ms(start), "accept-result:no-acceptor".into()));
                    }
                }));
            }
            "reject" => {
                let code: u16 = a[1].parse().unwrap();
                let acc = acceptor.clone();
                let lg = log.clone();
                let prep = prepared.lock().take();
                tasks.push(tokio::spawn(async move {
                    let taken = acc.lock().await.take();
                    if let Some(a) = taken {
                        let resp = match prep {
                            Some(r) => Ok(r),
                            None => a.create_response(Code::from(code), None).await,
                        };
                        let r = match resp {
                            Ok(resp) => a.respond_failure(resp).await.map_err(|e| format!("{:?}", e)),
                            Err(e) => Err(format!("{:?}", e)),
                        };
                        lg.lock().push((next_seq(), now_ms(start), format!("reject-result:{}", r.map(|_| "ok".to_string()).unwrap_or_else(|e| e)).replace(' ', "_")));
                    } else {
                        lg.lock().push((next_seq(), now_ms(start), "reject-result:no-acceptor".into()));
                    }
                }));
            }
            "dropacc" => {
                let taken = acceptor.lock().await.take();
                drop(taken);
            }
            "ackf" => {
                // ACK for a non-2xx final: same branch as the INVITE, absorbed by the server transaction
                let text = indialog("ACK", invite_cseq, invite_branch, &local_tag, "");
                inject(&endpoint, &text, source, &tp);
            }
            "cancel" => {
                let variant = a.get(1).map(|s| s.as_str()).unwrap_or("");
                req_counter += 1;
                let other = format!("z9hG4bKother{}", req_counter);
                let branch = if variant == "x" { other.as_str() } else { invite_branch };
                let cseq = if variant == "c" { invite_cseq.saturating_add(1) } else { invite_cseq };
                let text = indialog("CANCEL", cseq, branch, "", "");
                inject(&endpoint, &text, source, &tp);
            }
            "bye" | "info" | "update" => {
                req_counter += 1;
                cseq_counter += 1;
                let m = a[0].to_uppercase();
                let text = indialog(&m, invite_cseq.saturating_add(cseq_counter), &format!("z9hG4bK{}{}", a[0], req_counter), &local_tag, "");
                inject(&endpoint, &text, source, &tp);
            }
            "reinv" => {
                req_counter += 1;
                cseq_counter += 1;
                let extra = a.get(1).map(|h| String::from_utf8(unhex(h)).unwrap()).unwrap_or_default();
                let text = indialog("INVITE", invite_cseq.saturating_add(cseq_counter), &format!("z9hG4bKreinv{}", req_counter), &local_tag, &format!("Contact: <sip:peer@10.9.9.9>\r\n{}", extra));
                inject(&endpoint, &text, source, &tp);
            }
            "ack" => {
                // ACK for the last 2xx on the wire (its CSeq number), optional explicit cseq
                let cseq: u32 = match a.get(1) {
                    Some(c) if !c.is_empty() => c.parse().unwrap(),
                    _ => {
                        let w = wire.lock();
                        w.iter().rev().find(|x| x.2.starts_with(b"SIP/2.0 2")).map(|x| {
                            header_lines(&x.2, "cseq").first().and_then(|l| l.split(':').nth(1)).and_then(|v| v.trim().split(' ').next().map(|n| n.parse().unwrap_or(0))).unwrap_or(0)
                        }).unwrap_or(invite_cseq)
                    }
                };
                req_counter += 1;
                // optional third field: further header lines of the ACK (hex), e.g. a Contact - legal in an ACK, and not a target refresh
                let ack_extra = a.get(2).map(|h| String::from_utf8(unhex(h)).unwrap()).unwrap_or_default();
                // a caller that predates the magic cookie sends its ACK under the INVITE's branch (RFC 2543 matching puts it on the INVITE
                // server transaction, whose filter hands it up)
                let ack_branch = if setup.contains("lbranch") { invite_branch.to_string() } else { format!("z9hG4bKack{}", req_counter) };
                let text = indialog("ACK", cseq, &ack_branch, &local_tag, &ack_extra);
                inject(&endpoint, &text, source, &tp);
            }
            "prack" => {
                // RAck from the RSeq of the last reliable provisional on the wire; variants: wrong / bad
                let variant = a.get(1).map(|s| s.as_str()).unwrap_or("");
                let rseq: u64 = {
                    let w = wire.lock();
                    w.iter().rev().find_map(|x| header_lines(&x.2, "rseq").first().and_then(|l| l.split(':').nth(1)).and_then(|v| v.trim().parse().ok())).unwrap_or(1)
                };
                let rack = match variant {
                    "wrong" => format!("RAck: {} {} INVITE\r\n", rseq + 1, invite_cseq),
                    "wrongcseq" => format!("RAck: {} {} INVITE\r\n", rseq, invite_cseq.saturating_add(7)),
                    "bad" => "RAck: garbage\r\n".to_string(),
                    "none" => String::new(),
                    _ => format!("RAck: {} {} INVITE\r\n", rseq, invite_cseq),
                };
                req_counter += 1;
                cseq_counter += 1;
                let text = indialog("PRACK", invite_cseq.saturating_add(cseq_counter), &format!("z9hG4bKprack{}", req_counter), &local_tag, &rack);
                inject(&endpoint, &text, source, &tp);
            }
            "raw" => {
                // arbitrary bytes as a datagram (C02)
                // the text @@TAG@@ stands for the local tag of the dialog created by `inv`
                let mut bytes = unhex(&a[1]);
                if let Some(pos) = bytes.windows(7).position(|w| w == b"@@TAG@@") {
                    bytes.splice(pos..pos + 7, local_tag.bytes());
                }
                inject(&endpoint, &bytes, source, &tp);
            }
            "options" => {
                req_counter += 1;
                let text = format!(
                    "OPTIONS sip:me@10.0.0.1 SIP/2.0\r\nVia: SIP/2.0/UDP 10.9.9.9:5060;branch=z9hG4bKopt{}\r\nFrom: <sip:probe@example.org>;tag=pr\r\nTo: <sip:me@example.org>\r\nCall-ID: probe-{}\r\nCSeq: 1 OPTIONS\r\nMax-Forwards: 70\r\nContent-Length: 0\r\n\r\n",
                    req_counter, req_counter
                );
                inject(&endpoint, text.as_bytes(), source, &tp);
            }
            // ---------------- UAC side ----------------
            "invite" => {
                let local = NameAddr::uri(endpoint.parse_uri("sip:me@example.org").unwrap());
                let target = endpoint.parse_uri("sip:peer@10.9.9.9").unwrap();
                let mut init = Initiator::new(endpoint.clone(), dialog_layer, invite_layer, local, contact(&endpoint, "sip:me@10.0.0.1"), target);
                for kv in setup.split(';') {
                    let mut it = kv.splitn(2, '=');
                    match (it.next(), it.next()) {
                        (Some("se"), Some(v)) => init.timer_config.expires_secs = v.parse().ok(),
                        (Some("timer"), Some(v)) => init.support_timer = v == "1",
                        _ => {}
                    }
                }
                let req = init.create_invite();
                let lg = log.clone();
                let rm = refresh_mode.clone();
                let tpc = tp.clone();
                tasks.push(tokio::spawn(async move {
                    // pin the mock transport: no DNS / selection involved
                    let mut init = init;
                    {
                        // Initiator keeps its target info inside the dialog builder; select via URI works too,
                        // the mock UDP transport is the only one configured
                        let _ = &tpc;
                    }
                    if let Err(e) = init.send_invite(req).await {
                        lg.lock().push((next_seq(), now_ms(start), format!("send-error:{:?}", e).replace(' ', "_")));
                        return;
                    }
                    let mut errors = 0;
                    loop {
                        match init.receive().await {
                            Ok(Response::Provisional(r)) => lg.lock().push((next_seq(), now_ms(start), format!("provisional:{}", r.line.code.into_u16()))),
                            Ok(Response::Failure(r)) => lg.lock().push((next_seq(), now_ms(start), format!("failure:{}", r.line.code.into_u16()))),
                            Ok(Response::Early(early, r, rseq)) => {
                                let tag = r.base_headers.to.tag.as_ref().map(|t| t.to_string()).unwrap_or_default();
                                lg.lock().push((next_seq(), now_ms(start), format!("early:{}:{}:{}", tag, r.line.code.into_u16(), rseq.map(|r| r.0.to_string()).unwrap_or("-".into()))));
                                track(tokio::spawn(drive_early(early, lg.clone(), start, tag, rm.clone())));
                            }
                            Ok(Response::Session(session, r)) => {
                                let tag = r.base_headers.to.tag.as_ref().map(|t| t.to_string()).unwrap_or_default();
                                lg.lock().push((next_seq(), now_ms(start), format!("session:{}:{}", tag, describe_dialog(&session.dialog))));
                                track(tokio::spawn(drive_session(session, lg.clone(), start, tag, rm.clone())));
                            }
                            Ok(Response::Finished) => {
                                lg.lock().push((next_seq(), now_ms(start), "finished".into()));
                                // the application keeps its Initiator for a while: what an early dialog is told must come from the
                                // initiator's own event, not from the channel closing when the initiator is dropped
                                tokio::time::sleep(Duration::from_secs(20)).await;
                                break;
                            }
                            Err(e) => {
                                // a response the caller cannot use (e.g. a tagged 1xx without Contact) is reported as an error; the
                                // INVITE transaction is still running, so the application goes on receiving
                                lg.lock().push((next_seq(), now_ms(start), format!("initiator-error:{:?}", e).replace(' ', "_")));
                                errors += 1;
                                if errors > 20 || matches!(e, sip_core::Error::RequestTimedOut) {
                                    break;
                                }
                            }
                        }
                    }
                }));
            }
            "resp" => {
                // response to the INVITE on the wire: code, to-tag ('-' none), extra headers hex
                let code: u16 = a[1].parse().unwrap();
                let tag = a.get(2).cloned().unwrap_or("-".into());
                let extra = a.get(3).map(|h| String::from_utf8(unhex(h)).unwrap()).unwrap_or_default();
                let inv = wire.lock().iter().find(|x| x.2.starts_with(b"INVITE ")).map(|x| x.2.clone());
                if let Some(inv) = inv {
                    {
                        let cidv = header_lines(&inv, "call-id").first().map(|l| l.splitn(2, ':').nth(1).unwrap_or("").trim().to_string()).unwrap_or_default();
                        let fromv = header_lines(&inv, "from").join("");
                        let ourtag = fromv.split("tag=").nth(1).unwrap_or("").split(';').next().unwrap_or("").trim().to_string();
                        *uac_ids.lock() = Some((cidv, ourtag));
                    }
                    let via = header_lines(&inv, "via").join("\r\n");
                    let from = header_lines(&inv, "from").join("\r\n");
                    let to = header_lines(&inv, "to").join("\r\n");
                    let cid = header_lines(&inv, "call-id").join("\r\n");
                    let cseq = header_lines(&inv, "cseq").join("\r\n");
                    let to_line = if tag == "-" { to } else { format!("{};tag={}", to, tag) };
                    let text = format!("SIP/2.0 {} R\r\n{}\r\n{}\r\n{}\r\n{}\r\n{}\r\n{}Content-Length: 0\r\n\r\n", code, via, from, to_line, cid, cseq, extra);
                    inject(&endpoint, text.as_bytes(), source, &tp);
                }
            }
            "resp2" => {
                // 2xx answer to the newest in-dialog request we sent (e.g. a refresh re-INVITE or BYE)
                let last = wire.lock().iter().rev().find(|x| !x.2.starts_with(b"SIP/2.0") && !x.2.starts_with(b"ACK ")).map(|x| x.2.clone());
                if let Some(rq) = last {
                    let lines: Vec<String> = ["via", "from", "to", "call-id", "cseq"].iter().map(|h| header_lines(&rq, h).join("\r\n")).collect();
                    let text = format!("SIP/2.0 200 OK\r\n{}\r\nContact: <sip:peer@10.9.9.9>\r\nContent-Length: 0\r\n\r\n", lines.join("\r\n"));
                    inject(&endpoint, text.as_bytes(), source, &tp);
                }
            }
            "wait" => {}
            "between" => {
                // the application creates another request in every dialog it holds (say an INFO it is about to send)
                for d in SESSION_DIALOGS.lock().iter() {
                    let _ = d.create_request(Method::INFO);
                }
            }
            "abortall" => {
                // the application drops everything it holds at this instant (C16: early drops)
                for t in tasks.drain(..) {
                    t.abort();
                }
                for h in SUBTASKS.lock().drain(..) {
                    h.abort();
                }
                drop(acceptor.lock().await.take());
                while irx.try_recv().is_ok() {}
            }
            other => panic!("bad action {}", other),
        }
        settle_now().await;
    }
    settle_now().await;
    let counts = endpoint.verif_counts();
    let dcounts = endpoint[dialog_layer].verif_counts();
    let icount = endpoint[invite_layer].verif_counts();
    for t in &tasks {
        t.abort();
    }
    // C16: drop every object the application holds, let the longest protocol timer pass, read the tables again
    let mut quiesced = String::new();
    if setup.contains("quiesce") {
        for h in SUBTASKS.lock().drain(..) {
            h.abort();
        }
        drop(acceptor.lock().await.take());
        while irx.try_recv().is_ok() {}
        drop(irx);
        settle_now().await;
        tokio::time::sleep(Duration::from_millis(70_000)).await;
        settle_now().await;
        let c = endpoint.verif_counts();
        let d = endpoint[dialog_layer].verif_counts();
        let i = endpoint[invite_layer].verif_counts();
        quiesced = format!(" quiesced=tsx{}/tp{}/dlg{}/backlog{}/cancel{}", c.0, c.1, d.0, d.1, i);
    } else {
        SUBTASKS.lock().clear();
        SESSION_DIALOGS.lock().clear();
    }
    let mut all: Vec<(u64, u64, String)> = log.lock().clone();
    for w in wire.lock().iter() {
        all.push((w.3, w.0, format!("W:{}", describe_wire(&w.2))));
    }
    all.sort();
    let mut out: Vec<String> = all.iter().map(|(_, ms, s)| format!("{}@{}", s, ms)).collect();
    out.push(format!("tables=tsx{}/tp{}/dlg{}/backlog{}/cancel{}{}", counts.0, counts.1, dcounts.0, dcounts.1, icount, quiesced));
    let _ = Duration::from_secs(0);
    out.join(" ")
}
