//! C15: life-cycle of a connection-oriented transport, driven through the public streaming traits.
use crate::common::*;
use crate::stream_mock::*;
use parking_lot::Mutex;
use sip_core::transport::streaming::StreamingListenerBuilder;
use sip_core::transport::{Direction, TpHandle};
use sip_core::{Endpoint, IncomingRequest, Layer, MayTake};
use std::net::SocketAddr;
use std::sync::Arc;
use std::time::Duration;
use tokio::io::{AsyncReadExt, AsyncWriteExt, DuplexStream};
use tokio::sync::mpsc;

struct CountLayer {
    n: Arc<Mutex<usize>>,
}

#[async_trait::async_trait]
impl Layer for CountLayer {
    fn name(&self) -> &'static str {
        "count"
    }
    async fn receive(&self, _endpoint: &Endpoint, request: MayTake<'_, IncomingRequest>) {
        *self.n.lock() += 1;
        drop(request.take()); // no response, no handle kept
    }
}

pub fn run(cases: &[Vec<String>]) {
    for case in cases {
        let id = case[0].clone();
        let c = case.clone();
        let seed = id.bytes().fold(3u64, |a, b| a.wrapping_mul(131).wrapping_add(b as u64));
        take_panics();
        let res = run_async_case(seed, move || run_case(c));
        let panics = take_panics();
        match res {
            Ok(s) if panics.is_empty() => println!("{}\t{}", id, s),
            Ok(s) => println!("{}\t{}\tPANIC {}", id, s, panics.join(" | ")),
            Err(e) => println!("{}\tPANIC {} {}", id, e, panics.join(" | ")),
        }
    }
}

async fn settle_now() {
    for _ in 0..100 {
        tokio::task::yield_now().await;
    }
}

fn request_bytes(n: usize) -> Vec<u8> {
    format!(
        "OPTIONS sip:me@10.0.0.1 SIP/2.0\r\nVia: SIP/2.0/TCP 10.9.9.9:5060;branch=z9hG4bKc15x{n}\r\nFrom: <sip:p@example.org>;tag=f\r\nTo: <sip:me@example.org>\r\nCall-ID: c15-{n}\r\nCSeq: 1 OPTIONS\r\nMax-Forwards: 70\r\nContent-Length: 0\r\n\r\n",
        n = n
    )
    .into_bytes()
}

pub async fn run_case(case: Vec<String>) -> String {
    *READ_GATE.lock() = None;
    // "in": a connection accepted as soon as the listener runs; "in@<ms>": accepted after the listener has been waiting that long
    let incoming = case[2] == "in" || case[2].starts_with("in@") || case[2] == "inm";
    // "inm" / "outm": the peer's address is an IPv4-mapped IPv6 address (an IPv4 peer on a dual-stack socket) - an address like any other
    let mapped = case[2] == "inm" || case[2] == "outm";
    let remote: SocketAddr = if mapped { "[::ffff:10.9.9.9]:5060".parse().unwrap() } else { "10.9.9.9:5060".parse().unwrap() };
    let delivered: Arc<Mutex<usize>> = Default::default();
    let mut builder = Endpoint::builder();
    let factory = MockStreamFactory::<false>::new(true, 20000);
    if case[2] == "outalias" {
        // the connected stream reports another peer address than the one that was dialled
        *factory.peer_alias.lock() = Some("10.9.9.99:5060".parse().unwrap());
    }
    builder.add_transport_factory(Arc::new(factory.clone()));
    builder.add_layer(CountLayer { n: delivered.clone() });
    let (tx, rx) = mpsc::unbounded_channel();
    MockListenerBuilder::<false> { rx }.spawn(&mut builder, "10.0.0.1:5060").await.unwrap();
    let endpoint = builder.build();
    settle_now().await;
    let uri = endpoint.parse_uri(if mapped { "sip:bob@[::ffff:10.9.9.9]" } else { "sip:bob@10.9.9.9" }).unwrap();

    let mut held: Vec<TpHandle> = vec![];
    let mut extra: Vec<TpHandle> = vec![];
    let mut peer: Option<DuplexStream>;
    let local: SocketAddr;
    if incoming {
        let (a, b) = tokio::io::duplex(1 << 20);
        local = "10.0.0.1:5060".parse().unwrap();
        if let Some(ms) = case[2].strip_prefix("in@").and_then(|v| v.parse::<u64>().ok()) {
            tokio::time::sleep(std::time::Duration::from_millis(ms)).await;
            settle_now().await;
        }
        tx.send((MockStream::<false> { io: a, local, peer: remote }, remote)).unwrap();
        peer = Some(b);
        settle_now().await;
    } else {
        let (h, _) = endpoint.select_transport(&*uri).await.unwrap();
        local = h.bound();
        held.push(h);
        peer = factory.peers.lock()[0].io.take();
        settle_now().await;
    }
    let mut nframes = 0;
    let mut outs: Vec<String> = vec![];
    for group in case[3].split(';').filter(|g| !g.is_empty()) {
        let mut sel: Vec<&str> = vec![];
        for ev in group.split(',') {
            let p: Vec<&str> = ev.split(':').collect();
            match p[0] {
                "clone" => {
                    if let Some(h) = held.first().cloned() {
                        held.push(h);
                    }
                }
                "drop" => {
                    held.pop();
                }
                "select" => match endpoint.select_transport(&*uri).await {
                    Ok((h, _)) => {
                        let same = h.bound() == local && matches!(h.direction(), Direction::Outgoing(_) | Direction::Incoming(_));
                        if same && !incoming {
                            held.push(h);
                            sel.push("R");
                        } else {
                            // another connection: keep it until the end of the group, then close it so
                            // that it cannot compete with the connection under test later on
                            extra.push(h);
                            sel.push("N");
                        }
                    }
                    Err(_) => sel.push("E"),
                },
                "other" => {
                    // a request to an unrelated destination: its selection scans the registered connections
                    let other_uri = endpoint.parse_uri("sip:carol@10.8.8.8").unwrap();
                    if let Ok((h, _)) = endpoint.select_transport(&*other_uri).await {
                        extra.push(h);
                    }
                }
                "frame" => {
                    nframes += 1;
                    if let Some(io) = peer.as_mut() {
                        io.write_all(&request_bytes(nframes)).await.ok();
                    }
                }
                "gate" => {
                    // what the peer writes from now on becomes readable this many microseconds from now
                    let us: u64 = p[1].parse().unwrap();
                    *READ_GATE.lock() = Some(tokio::time::Instant::now() + Duration::from_micros(us));
                }
                "close" => {
                    peer = None;
                }
                "bighead" => {
                    // a head that passes the 4096 byte limit inside ONE line that is not terminated yet (also: folded): a framing error
                    if let Some(io) = peer.as_mut() {
                        let mut m = b"OPTIONS sip:me@10.0.0.1 SIP/2.0\r\nVia: SIP/2.0/TCP 10.9.9.9:5060;branch=z9hG4bKbig\r\nSubject: ".to_vec();
                        m.extend(std::iter::repeat(b'a').take(6000));
                        io.write_all(&m).await.ok();
                    }
                }
                "garbage" => {
                    if let Some(io) = peer.as_mut() {
                        io.write_all(b"\x01\x02 this is not sip\r\n\r\n").await.ok();
                    }
                }
                "adv" => {
                    let ms: u64 = p[1].parse().unwrap();
                    tokio::time::sleep(Duration::from_millis(ms)).await;
                }
                _ => panic!("bad event"),
            }
        }
        if !extra.is_empty() {
            extra.clear();
            let mut peers = factory.peers.lock();
            let first = if incoming { 0 } else { 1 };
            for p in peers.iter_mut().skip(first) {
                p.io = None;
            }
        }
        settle_now().await;
        let counts = endpoint.verif_counts();
        let closed = match peer.as_mut() {
            None => "x".to_string(),
            Some(io) => {
                let mut buf = [0u8; 4096];
                match tokio::time::timeout(Duration::from_millis(0), io.read(&mut buf)).await {
                    Ok(Ok(0)) => "1".to_string(),
                    Ok(Ok(_)) => "data".to_string(),
                    Ok(Err(_)) => "err".to_string(),
                    Err(_) => "0".to_string(),
                }
            }
        };
        // entries of further connections opened by select are not the connection under test
        let mut others: Vec<SocketAddr> = extra.iter().map(|h| h.bound()).collect();
        others.sort();
        others.dedup();
        outs.push(format!("m={} d={} c={} sel={}", counts.1 - others.len(), *delivered.lock(), closed, sel.join("")));
    }
    drop(held);
    drop(extra);
    *READ_GATE.lock() = None;
    outs.join(";")
}
