//! Shared harness pieces: mock transport, endpoint construction, message injection, case IO.
#![allow(dead_code)]

use bytes::Bytes;
use parking_lot::Mutex;
use sip_core::transport::{
    parse_complete, CompleteItem, Direction, ReceivedMessage, TpHandle, Transport,
};
use sip_core::{Endpoint, IncomingRequest, Layer, MayTake};
use std::fmt;
use std::io;
use std::net::SocketAddr;
use std::panic::{catch_unwind, AssertUnwindSafe};
use std::sync::atomic::{AtomicBool, Ordering};
use std::sync::Arc;
use std::time::Duration;

pub type WireLog = Arc<Mutex<Vec<(u64, SocketAddr, Vec<u8>, u64)>>>;

/// global sequence number so that wire events and API results can be merged in the order they happened
pub static SEQ: std::sync::atomic::AtomicU64 = std::sync::atomic::AtomicU64::new(0);
pub fn next_seq() -> u64 {
    SEQ.fetch_add(1, Ordering::SeqCst)
}

/// virtual milliseconds since the runtime started (paused clock)
pub struct Clock(pub tokio::time::Instant);
impl Clock {
    pub fn new() -> Self {
        Clock(tokio::time::Instant::now())
    }
    pub fn ms(&self) -> u64 {
        (tokio::time::Instant::now() - self.0).as_millis() as u64
    }
}

#[derive(Clone)]
pub struct MockTp {
    pub name: &'static str,
    pub reliable: bool,
    pub secure: bool,
    pub bound: SocketAddr,
    pub direction: Direction,
    pub log: WireLog,
    pub start: tokio::time::Instant,
    pub fail_send: Arc<AtomicBool>,
    /// virtual milliseconds the FIRST send takes (connection set-up, a slow first write); 0 = immediate
    pub first_send_delay_ms: Arc<std::sync::atomic::AtomicU64>,
    /// the first send returns this long after its bytes went out (a flush that has to wait)
    pub first_send_linger_ms: Arc<std::sync::atomic::AtomicU64>,
    /// every 2xx answer to an INVITE returns this long after its bytes went out
    pub linger_2xx_ms: Arc<std::sync::atomic::AtomicU64>,
}

impl MockTp {
    pub fn udp(log: WireLog, start: tokio::time::Instant) -> Self {
        MockTp {
            name: "UDP",
            reliable: false,
            secure: false,
            bound: "10.0.0.1:5060".parse().unwrap(),
            direction: Direction::None,
            log,
            start,
            fail_send: Arc::new(AtomicBool::new(false)),
            first_send_delay_ms: Default::default(),
            first_send_linger_ms: Default::default(),
            linger_2xx_ms: Default::default(),
        }
    }
    pub fn tcp(log: WireLog, start: tokio::time::Instant, remote: SocketAddr) -> Self {
        MockTp {
            name: "TCP",
            reliable: true,
            secure: false,
            bound: "10.0.0.1:5060".parse().unwrap(),
            direction: Direction::Incoming(remote),
            log,
            start,
            fail_send: Arc::new(AtomicBool::new(false)),
            first_send_delay_ms: Default::default(),
            first_send_linger_ms: Default::default(),
            linger_2xx_ms: Default::default(),
        }
    }
}

impl fmt::Debug for MockTp {
    fn fmt(&self, f: &mut fmt::Formatter<'_>) -> fmt::Result {
        write!(f, "MockTp({})", self.name)
    }
}
impl fmt::Display for MockTp {
    fn fmt(&self, f: &mut fmt::Formatter<'_>) -> fmt::Result {
        write!(f, "mock:{}", self.name)
    }
}

#[async_trait::async_trait]
impl Transport for MockTp {
    fn name(&self) -> &'static str {
        self.name
    }
    fn secure(&self) -> bool {
        self.secure
    }
    fn reliable(&self) -> bool {
        self.reliable
    }
    fn bound(&self) -> SocketAddr {
        self.bound
    }
    fn sent_by(&self) -> SocketAddr {
        self.bound
    }
    fn direction(&self) -> Direction {
        self.direction
    }
    async fn send(&self, message: &[u8], target: SocketAddr) -> io::Result<()> {
        if self.fail_send.load(Ordering::SeqCst) {
            return Err(io::Error::new(io::ErrorKind::Other, "mock send failure"));
        }
        let d = self.first_send_delay_ms.swap(0, Ordering::SeqCst);
        if d > 0 {
            tokio::time::sleep(Duration::from_millis(d)).await;
        }
        let ms = (tokio::time::Instant::now() - self.start).as_millis() as u64;
        self.log.lock().push((ms, target, message.to_vec(), next_seq()));
        let l = self.first_send_linger_ms.swap(0, Ordering::SeqCst);
        if l > 0 {
            tokio::time::sleep(Duration::from_millis(l)).await;
        }
        let l2 = self.linger_2xx_ms.load(Ordering::SeqCst);
        if l2 > 0 && message.starts_with(b"SIP/2.0 2") && String::from_utf8_lossy(message).contains(" INVITE\r\n") {
            tokio::time::sleep(Duration::from_millis(l2)).await;
        }
        Ok(())
    }
}

/// Parse bytes into a ReceivedMessage the way the UDP transport does
pub fn parse_received(
    endpoint: &Endpoint,
    bytes: &[u8],
    source: SocketAddr,
    tp: &TpHandle,
) -> Option<ReceivedMessage> {
    match parse_complete(endpoint.parser(), bytes) {
        Ok(CompleteItem::Sip {
            line,
            headers,
            body,
            buffer,
        }) => Some(ReceivedMessage::new(
            source,
            buffer,
            tp.clone(),
            line,
            headers,
            body,
        )),
        _ => None,
    }
}

pub fn inject(endpoint: &Endpoint, bytes: &[u8], source: SocketAddr, tp: &TpHandle) -> bool {
    match parse_received(endpoint, bytes, source, tp) {
        Some(msg) => {
            endpoint.receive(msg);
            true
        }
        None => false,
    }
}

/// let every spawned task run until nothing is runnable (paused clock: the sleep only completes
/// once all other tasks are idle)
pub async fn settle() {
    tokio::time::sleep(Duration::from_millis(1)).await;
}

pub async fn advance_to(clock: &Clock, target_ms: u64) {
    let now = clock.ms();
    if target_ms > now {
        tokio::time::sleep(Duration::from_millis(target_ms - now)).await;
    }
}

/// A layer that records every request it is offered; takes it if `take` is set.
pub struct RecLayer {
    pub name: &'static str,
    pub take: bool,
    pub seen: Arc<Mutex<Vec<String>>>,
    pub taken: Arc<Mutex<Vec<IncomingRequest>>>,
}

#[async_trait::async_trait]
impl Layer for RecLayer {
    fn name(&self) -> &'static str {
        self.name
    }
    async fn receive(&self, _endpoint: &Endpoint, request: MayTake<'_, IncomingRequest>) {
        let branch = request.base_headers.via[0]
            .params
            .get_val("branch")
            .map(|b| b.to_string())
            .unwrap_or_default();
        self.seen.lock().push(branch);
        if self.take {
            self.taken.lock().push(request.take());
        }
    }
}

/// Run one case on a fresh current_thread runtime with the paused clock and a seeded select order.
/// Returns Err(panic message) if the case (or a task it spawned and awaited) panicked.
pub fn run_async_case<F, Fut>(seed: u64, f: F) -> Result<String, String>
where
    F: FnOnce() -> Fut,
    Fut: std::future::Future<Output = String>,
{
    let res = catch_unwind(AssertUnwindSafe(|| {
        let rt = tokio::runtime::Builder::new_current_thread()
            .enable_all()
            .start_paused(true)
            .rng_seed(tokio::runtime::RngSeed::from_bytes(&seed.to_le_bytes()))
            .build()
            .unwrap();
        let out = rt.block_on(f());
        drop(rt);
        out
    }));
    match res {
        Ok(s) => Ok(s),
        Err(e) => {
            let msg = if let Some(s) = e.downcast_ref::<&str>() {
                s.to_string()
            } else if let Some(s) = e.downcast_ref::<String>() {
                s.clone()
            } else {
                "panic".to_string()
            };
            Err(msg)
        }
    }
}

/// global record of panics in spawned tasks (the panic hook stores location + message)
pub static PANICS: Mutex<Vec<String>> = Mutex::new(Vec::new());

pub fn install_panic_hook() {
    std::panic::set_hook(Box::new(|info| {
        let loc = info
            .location()
            .map(|l| format!("{}:{}", l.file(), l.line()))
            .unwrap_or_default();
        let msg = if let Some(s) = info.payload().downcast_ref::<&str>() {
            s.to_string()
        } else if let Some(s) = info.payload().downcast_ref::<String>() {
            s.clone()
        } else {
            String::new()
        };
        let msg: String = msg.chars().take(120).collect();
        PANICS.lock().push(format!("{} {}", loc, msg.replace(['\t', '\n'], " ")));
    }));
}

pub fn take_panics() -> Vec<String> {
    std::mem::take(&mut *PANICS.lock())
}

pub fn hex(b: &[u8]) -> String {
    hex::encode(b)
}
pub fn unhex(s: &str) -> Vec<u8> {
    hex::decode(s).expect("bad hex in case file")
}

pub fn read_cases(path: &str) -> Vec<Vec<String>> {
    let text = std::fs::read_to_string(path).expect("cannot read case file");
    text.lines()
        .filter(|l| !l.is_empty())
        .map(|l| l.split('\t').map(|s| s.to_string()).collect())
        .collect()
}

pub fn bytes_static(b: &[u8]) -> Bytes {
    Bytes::copy_from_slice(b)
}
