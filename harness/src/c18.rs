//! C18: digest authentication session (sync API).
use crate::common::*;
use sip_auth::digest::{DigestAuthenticator, DigestCredentials};
use sip_auth::{CredentialStore, RequestParts, UacAuthSession};
use sip_types::header::typed::{Algorithm, AuthChallenge, DigestChallenge, QopOption};
use sip_types::msg::RequestLine;
use sip_types::uri::sip::SipUri;
use sip_types::{Headers, Method, Name};
use std::panic::{catch_unwind, AssertUnwindSafe};

fn s(hexs: &str) -> String {
    String::from_utf8(unhex(hexs)).unwrap()
}

pub fn run(cases: &[Vec<String>]) {
    for case in cases {
        let id = case[0].clone();
        take_panics();
        let res = catch_unwind(AssertUnwindSafe(|| run_case(case)));
        let panics = take_panics();
        match res {
            Ok(s) if panics.is_empty() => println!("{}\t{}", id, s),
            _ => println!("{}\tPANIC {}", id, panics.join(" | ")),
        }
    }
}

fn run_case(case: &[String]) -> String {
    let method = Method::from(case[2].as_str());
    let uri: SipUri = case[3].parse().expect("uri");
    let body = unhex(&case[4]);
    let mut store = CredentialStore::new();
    // "<realm>=<user>:<password>" (hex), "*" for the default; a later entry for a realm is a second add_for_realm
    fn put(store: &mut CredentialStore, e: &str) {
        let (realm, up) = e.split_once('=').unwrap();
        let (u, p) = up.split_once(':').unwrap();
        let creds = DigestCredentials::new(s(u), s(p));
        if realm == "*" {
            store.set_default(creds);
        } else {
            store.add_for_realm(s(realm), creds);
        }
    }
    for e in case[5].split(';').filter(|x| !x.is_empty()) {
        put(&mut store, e);
    }
    let line = RequestLine { method, uri: Box::new(uri) };
    let mut auth = DigestAuthenticator::default();
    if case.get(7).map(|x| x.contains("enforce")).unwrap_or(false) {
        auth.enforce_qop = true;
    }
    if case.get(7).map(|x| x.contains("rejectmd5")).unwrap_or(false) {
        auth.reject_md5 = true;
    }
    let mut session = UacAuthSession::new(auth);
    let mut outs: Vec<String> = vec![];
    for step in case[6].split(';').filter(|x| !x.is_empty()) {
        if let Some(e) = step.strip_prefix('C') {
            // the application stores (other) credentials between two requests
            put(&mut store, e);
            outs.push("C[]".to_string());
        } else if step == "U" {
            let mut h = Headers::new();
            session.authorize_request(&mut h);
            let vals: Vec<String> = h
                .iter()
                .map(|(n, v)| format!("{}:{}", if *n == Name::PROXY_AUTHORIZATION { "P" } else { "A" }, hex(v.as_bytes())))
                .collect();
            outs.push(format!("U[{}]", vals.join(",")));
        } else {
            let mut headers = Headers::new();
            for ch in step[1..].split('|').filter(|x| !x.is_empty()) {
                let f: Vec<&str> = ch.split(',').collect();
                let name = if f[0] == "P" { Name::PROXY_AUTHENTICATE } else { Name::WWW_AUTHENTICATE };
                let algorithm = Algorithm::from(bytesstr::BytesStr::from(f[1]));
                let qop: Vec<QopOption> = if f[2] == "-" { vec![] } else { f[2].split('+').map(|q| QopOption::from(bytesstr::BytesStr::from(q))).collect() };
                let c = DigestChallenge {
                    realm: s(f[4]).into(),
                    domain: None,
                    nonce: s(f[5]).into(),
                    opaque: if f[6] == "-" { None } else { Some(s(f[6]).into()) },
                    stale: f.get(7).map(|x| *x == "1").unwrap_or(false),
                    algorithm,
                    qop,
                    userhash: f[3] == "1",
                    other: vec![],
                };
                headers.insert_type(name, &AuthChallenge::Digest(c));
            }
            let empty = Headers::new();
            let r = session.handle_authenticate(&headers, &store, RequestParts { line: &line, headers: &empty, body: &body });
            outs.push(match r {
                Ok(()) => "A[ok]".to_string(),
                Err(e) => format!("A[fail:{}]", hex(e.to_string().as_bytes())),
            });
        }
    }
    outs.join(";")
}
