//! C19: SDP.  txt: <hex utf8> -> D1=<dump of parse> T2=<hex of print> D2=<dump of parse(print)>  (ERR on a parse error)
use crate::common::*;
use bytesstr::BytesStr;
use sdp_types::*;

fn hx(s: &str) -> String {
    if s.is_empty() {
        "''".into()
    } else {
        hex(s.as_bytes())
    }
}

fn opt<T, F: Fn(&T) -> String>(o: &Option<T>, f: F) -> String {
    match o {
        Some(v) => f(v),
        None => "-".into(),
    }
}

fn addr(a: &TaggedAddress) -> String {
    match a {
        TaggedAddress::IP4(ip) => format!("4:{}", ip),
        TaggedAddress::IP4FQDN(h) => format!("4F:{}", hx(h)),
        TaggedAddress::IP6(ip) => format!("6:{}", ip),
        TaggedAddress::IP6FQDN(h) => format!("6F:{}", hx(h)),
    }
}

fn uaddr(a: &UntaggedAddress) -> String {
    match a {
        UntaggedAddress::Fqdn(h) => format!("F:{}", hx(h)),
        UntaggedAddress::IpAddress(ip) => format!("U:{}", ip),
    }
}

fn conn(c: &Connection) -> String {
    format!("{}/{}/{}", addr(&c.address), opt(&c.ttl, |v| v.to_string()), opt(&c.num, |v| v.to_string()))
}

fn bws(b: &[Bandwidth]) -> String {
    b.iter().map(|b| format!("{}:{}", hx(&b.type_), b.bandwidth)).collect::<Vec<_>>().join(",")
}

fn attrs(a: &[UnknownAttribute]) -> String {
    a.iter()
        .map(|a| match &a.value {
            Some(v) => format!("{}={}", hx(&a.name), hx(v)),
            None => hx(&a.name),
        })
        .collect::<Vec<_>>()
        .join(",")
}

fn dir(d: &Direction) -> &'static str {
    d.as_str()
}

fn key(k: &SrtpKeyingMaterial) -> String {
    format!("{}~{}~{}", hx(&k.key_and_salt), opt(&k.lifetime, |v| v.to_string()), opt(&k.mki, |m| format!("{}:{}", m.0, m.1)))
}

fn sparam(p: &SrtpSessionParam) -> String {
    match p {
        SrtpSessionParam::Kdr(v) => format!("KDR={}", v),
        SrtpSessionParam::UnencryptedSrtp => "USRTP".into(),
        SrtpSessionParam::UnencryptedSrtcp => "USRTCP".into(),
        SrtpSessionParam::UnauthenticatedSrtp => "UASRTP".into(),
        SrtpSessionParam::FecOrder(SrtpFecOrder::FecSrtp) => "FO=FEC_SRTP".into(),
        SrtpSessionParam::FecOrder(SrtpFecOrder::SrtpFec) => "FO=SRTP_FEC".into(),
        SrtpSessionParam::FecKey(keys) => format!("FK=({})", keys.iter().map(key).collect::<Vec<_>>().join("+")),
        SrtpSessionParam::WindowSizeHint(v) => format!("WSH={}", v),
        SrtpSessionParam::Ext(e) => format!("X:{}", hx(e)),
    }
}

fn crypto(c: &SrtpCrypto) -> String {
    let suite = match &c.suite {
        SrtpSuite::Ext(e) => format!("E:{}", hx(e)),
        other => format!("K:{}", other.as_str()),
    };
    format!(
        "{}|{}|({})|({})",
        c.tag,
        suite,
        c.keys.iter().map(key).collect::<Vec<_>>().join("+"),
        c.params.iter().map(sparam).collect::<Vec<_>>().join("+")
    )
}

fn cand(c: &IceCandidate) -> String {
    format!(
        "{}|{}|{}|{}|{}|{}|{}|{}|{}|({})",
        hx(&c.foundation),
        c.component,
        hx(&c.transport),
        c.priority,
        uaddr(&c.address),
        c.port,
        hx(&c.typ),
        opt(&c.rel_addr, uaddr),
        opt(&c.rel_port, |p| p.to_string()),
        c.unknown.iter().map(|(k, v)| format!("{}={}", hx(k), hx(v))).collect::<Vec<_>>().join("+")
    )
}

fn media(m: &MediaDescription) -> String {
    let proto = match &m.media.proto {
        TransportProtocol::Unspecified => "udp".to_string(),
        TransportProtocol::RtpAvp => "RTP/AVP".to_string(),
        TransportProtocol::RtpSavp => "RTP/SAVP".to_string(),
        TransportProtocol::RtpSavpf => "RTP/SAVPF".to_string(),
        TransportProtocol::Other(o) => format!("O:{}", hx(o)),
    };
    format!(
        "M{{mt={};port={};pn={};proto={};fmts=[{}];dir={};c={};b=[{}];rtcp={};rm=[{}];fm=[{}];uf={};pw={};cand=[{}];eoc={};cr=[{}];at=[{}]}}",
        m.media.media_type,
        m.media.port,
        opt(&m.media.ports_num, |v| v.to_string()),
        proto,
        m.media.fmts.iter().map(|f| f.to_string()).collect::<Vec<_>>().join(","),
        dir(&m.direction),
        opt(&m.connection, conn),
        bws(&m.bandwidth),
        opt(&m.rtcp_attr, |r| format!("{}/{}", r.port, opt(&r.address, addr))),
        m.rtpmaps.iter().map(|r| format!("{}|{}|{}|{}", r.payload, hx(&r.encoding), r.clock_rate, opt(&r.params, |p| hx(p)))).collect::<Vec<_>>().join(","),
        m.fmtps.iter().map(|f| format!("{}|{}", f.format, hx(&f.params))).collect::<Vec<_>>().join(","),
        opt(&m.ice_ufrag, |u| hx(&u.ufrag)),
        opt(&m.ice_pwd, |u| hx(&u.pwd)),
        m.ice_candidates.iter().map(cand).collect::<Vec<_>>().join(","),
        m.ice_end_of_candidates as u8,
        m.crypto.iter().map(crypto).collect::<Vec<_>>().join(","),
        attrs(&m.attributes)
    )
}

fn dump(s: &SessionDescription) -> String {
    format!(
        "S{{name={};o={}|{}|{}|{};t={},{};dir={};c={};b=[{}];io=[{}];lite={};uf={};pw={};at=[{}];M=[{}]}}",
        hx(&s.name),
        hx(&s.origin.username),
        hx(&s.origin.session_id),
        hx(&s.origin.session_version),
        addr(&s.origin.address),
        s.time.start,
        s.time.stop,
        dir(&s.direction),
        opt(&s.connection, conn),
        bws(&s.bandwidth),
        s.ice_options.options.iter().map(|o| hx(o)).collect::<Vec<_>>().join(","),
        s.ice_lite as u8,
        opt(&s.ice_ufrag, |u| hx(&u.ufrag)),
        opt(&s.ice_pwd, |u| hx(&u.pwd)),
        attrs(&s.attributes),
        s.media_descriptions.iter().map(media).collect::<Vec<_>>().join(" ")
    )
}

/// the part of a description the Coq model decides: which section every line was attached to, the media
/// lines, directions, flags and unknown attributes (field payloads only as present / count)
fn shape(s: &SessionDescription) -> String {
    let ms: Vec<String> = s
        .media_descriptions
        .iter()
        .map(|m| {
            let proto = match &m.media.proto {
                TransportProtocol::Unspecified => "udp".to_string(),
                TransportProtocol::RtpAvp => "RTP/AVP".to_string(),
                TransportProtocol::RtpSavp => "RTP/SAVP".to_string(),
                TransportProtocol::RtpSavpf => "RTP/SAVPF".to_string(),
                TransportProtocol::Other(o) => format!("O:{}", hx(o)),
            };
            format!(
                "M{{mt={};port={};pn={};proto={};fmts=[{}];dir={};c={};b={};rtcp={};rm={};fm={};uf={};pw={};cand={};eoc={};cr={};at=[{}]}}",
                m.media.media_type,
                m.media.port,
                opt(&m.media.ports_num, |v| v.to_string()),
                proto,
                m.media.fmts.iter().map(|f| f.to_string()).collect::<Vec<_>>().join(","),
                dir(&m.direction),
                m.connection.is_some() as u8,
                m.bandwidth.len(),
                m.rtcp_attr.is_some() as u8,
                m.rtpmaps.len(),
                m.fmtps.len(),
                m.ice_ufrag.is_some() as u8,
                m.ice_pwd.is_some() as u8,
                m.ice_candidates.len(),
                m.ice_end_of_candidates as u8,
                m.crypto.len(),
                attrs(&m.attributes)
            )
        })
        .collect();
    format!(
        "S{{name={};dir={};c={};b={};io={};lite={};uf={};pw={};at=[{}];M=[{}]}}",
        hx(&s.name),
        dir(&s.direction),
        s.connection.is_some() as u8,
        s.bandwidth.len(),
        (!s.ice_options.options.is_empty()) as u8,
        s.ice_lite as u8,
        s.ice_ufrag.is_some() as u8,
        s.ice_pwd.is_some() as u8,
        attrs(&s.attributes),
        ms.join(" ")
    )
}

pub fn run(cases: &[Vec<String>]) {
    for case in cases {
        let id = case[0].clone();
        take_panics();
        let bytes = unhex(&case[3]);
        let is_cand = case[2] == "cand";
        let out = match std::panic::catch_unwind(move || if is_cand { run_cand(bytes) } else { run_txt(bytes) }) {
            Ok(s) => s,
            Err(e) => {
                let msg = if let Some(s) = e.downcast_ref::<&str>() {
                    s.to_string()
                } else if let Some(s) = e.downcast_ref::<String>() {
                    s.clone()
                } else {
                    "panic".to_string()
                };
                format!("PANIC {}", msg)
            }
        };
        let panics = take_panics();
        if panics.is_empty() {
            println!("{}\t{}", id, out);
        } else {
            println!("{}\t{}\tPANIC {}", id, out, panics.join(" | "));
        }
    }
}

/// one candidate attribute value ("candidate:..."): IceCandidate::parse, the fields, Display (without its "a=") and the parse of that
fn run_cand(bytes: Vec<u8>) -> String {
    let text = match String::from_utf8(bytes) {
        Ok(t) => t,
        Err(_) => return "NOT-UTF8".into(),
    };
    let src = BytesStr::from(text);
    let c1 = match IceCandidate::parse(src.as_ref(), &src) {
        Ok((_, c)) => c,
        Err(_) => return "C=ERR".into(),
    };
    let printed = c1.to_string();
    let value = printed.strip_prefix("a=").unwrap_or(&printed).to_string();
    let src2 = BytesStr::from(value.clone());
    let c2 = match IceCandidate::parse(src2.as_ref(), &src2) {
        Ok((_, c)) => cand(&c),
        Err(_) => "ERR".into(),
    };
    format!("C={}\tT={}\tC2={}", cand(&c1), hex(value.as_bytes()), c2)
}

fn run_txt(bytes: Vec<u8>) -> String {
    let text = match String::from_utf8(bytes) {
        Ok(t) => t,
        Err(_) => return "NOT-UTF8".into(),
    };
    let src = BytesStr::from(text);
    let d1 = match SessionDescription::parse(&src) {
        Ok(d) => d,
        Err(_) => return "ERR".into(),
    };
    let printed = d1.to_string();
    let src2 = BytesStr::from(printed.clone());
    let d2 = match SessionDescription::parse(&src2) {
        Ok(d) => dump(&d),
        Err(_) => "ERR".into(),
    };
    format!("D1={}\tT2={}\tD2={}\tSH={}", dump(&d1), hex(printed.as_bytes()), d2, shape(&d1))
}
