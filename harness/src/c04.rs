//! C04: transaction matching. Untimed: the virtual clock never advances inside a case.
use crate::common::*;
use crate::tsx_client::request_from_text;
use parking_lot::Mutex;
use sip_core::transaction::Accepted;
use sip_core::transport::{TargetTransportInfo, TpHandle};
use sip_core::{Endpoint, IncomingRequest, Layer, MayTake};
use sip_types::Code;
use std::collections::HashMap;
use std::net::SocketAddr;
use std::sync::Arc;

struct HoldLayer {
    held: Arc<Mutex<Vec<Option<IncomingRequest>>>>,
}

#[async_trait::async_trait]
impl Layer for HoldLayer {
    fn name(&self) -> &'static str {
        "hold"
    }
    async fn receive(&self, _endpoint: &Endpoint, request: MayTake<'_, IncomingRequest>) {
        self.held.lock().push(Some(request.take()));
    }
}

pub fn run(cases: &[Vec<String>]) {
    for case in cases {
        let id = case[0].clone();
        let c = case.clone();
        take_panics();
        let res = if c[2] == "TIMED" {
            // id c04 TIMED <kind> <reliable> <code> <t0> <events> <horizon> [provs]: a server transaction under the paused clock
            let mut u = vec![c[0].clone(), "c06".into()];
            u.extend(c[3..].iter().cloned());
            run_async_case(7, move || crate::tsx_server::run_case(u))
        } else if c[2] == "CLIENT" {
            // id c04 CLIENT <kind> <reliable> <arrivals> <horizon> ... : a client transaction (harness of C05) whose answer may arrive
            // while the caller is still inside the first send
            let mut u = vec![c[0].clone(), "c05".into()];
            u.extend(c[3..].iter().cloned());
            run_async_case(7, move || crate::tsx_client::run_case(u, false))
        } else {
            run_async_case(1, move || run_case(c))
        };
        let panics = take_panics();
        match res {
            Ok(s) if panics.is_empty() => println!("{}\t{}", id, s),
            Ok(s) => println!("{}\t{}\tPANIC {}", id, s, panics.join(" | ")),
            Err(e) => println!("{}\tPANIC {} {}", id, e, panics.join(" | ")),
        }
    }
}

async fn settle_now() {
    for _ in 0..60 {
        tokio::task::yield_now().await;
    }
}

async fn run_case(case: Vec<String>) -> String {
    let clock = Clock::new();
    let wire: WireLog = Default::default();
    let tp = TpHandle::new(MockTp::udp(wire.clone(), clock.0));
    let source: SocketAddr = "10.9.9.9:5060".parse().unwrap();
    let held: Arc<Mutex<Vec<Option<IncomingRequest>>>> = Default::default();
    let mut builder = Endpoint::builder();
    builder.add_unmanaged_transport(tp.clone());
    builder.add_layer(HoldLayer { held: held.clone() });
    let endpoint = builder.build();

    let clog: Arc<Mutex<Vec<String>>> = Default::default();
    let mut client_branch: HashMap<String, String> = HashMap::new();
    let mut client_tasks: HashMap<String, tokio::task::JoinHandle<()>> = HashMap::new();
    let mut accepted: HashMap<usize, Accepted> = HashMap::new();
    let mut outs: Vec<String> = vec![];

    for ev in case[2].split(',').filter(|e| !e.is_empty()) {
        let p: Vec<&str> = ev.split(':').collect();
        let mut obs = "-".to_string();
        match p[0] {
            "M" => {
                let is_req = p[1] == "q";
                let branch = if let Some(idx) = p[5].strip_prefix('@') {
                    client_branch.get(idx).cloned().unwrap_or_else(|| "z9hG4bKunknown".into())
                } else {
                    p[5].to_string()
                };
                let branch_param = if branch == "-" { String::new() } else { format!(";branch={}", branch) };
                let ft = if p[7] == "-" { String::new() } else { format!(";tag={}", p[7]) };
                let line = if is_req {
                    format!("{} sip:me@10.0.0.1 SIP/2.0", p[2])
                } else {
                    format!("SIP/2.0 {} X", p[2])
                };
                // optional field 9: a lower Via (the message travelled through a proxy), "<sent-by>!<branch>"; the key is made from the top one
                let lower = match p.get(9) {
                    Some(l) if !l.is_empty() => {
                        let (sb2, b2) = l.split_once('!').unwrap_or((l, "-"));
                        let b2 = if let Some(idx) = b2.strip_prefix('@') {
                            client_branch.get(idx).cloned().unwrap_or_else(|| "z9hG4bKunknown".into())
                        } else {
                            b2.to_string()
                        };
                        format!("\r\nVia: SIP/2.0/UDP {}{}", sb2.replace('~', ":"), if b2 == "-" { String::new() } else { format!(";branch={}", b2) })
                    }
                    _ => String::new(),
                };
                let text = format!(
                    "{line}\r\nVia: SIP/2.0/UDP {sb}{bp}{lower}\r\nFrom: <sip:peer@example.org>{ft}\r\nTo: <sip:me@example.org>;tag=tt\r\nCall-ID: {cid}\r\nCSeq: {cs} {cm}\r\nMax-Forwards: 70\r\nContent-Length: 0\r\n\r\n",
                    line = line, sb = p[8].replace('~', ":"), bp = branch_param, lower = lower, ft = ft, cid = p[6], cs = p[4], cm = p[3]
                );
                let nheld = held.lock().len();
                clog.lock().clear();
                let ok = inject(&endpoint, text.as_bytes(), source, &tp);
                settle_now().await;
                if !ok {
                    obs = "E".into();
                } else if held.lock().len() > nheld {
                    obs = format!("L{}", nheld);
                } else if let Some(c) = clog.lock().first() {
                    obs = c.clone();
                }
            }
            "C" => {
                let idx = p[1].to_string();
                let method = p[2];
                let text = format!(
                    "{m} sip:bob@10.9.9.9 SIP/2.0\r\nFrom: <sip:me@example.org>;tag=mine\r\nTo: <sip:bob@example.org>\r\nCall-ID: out-{i}\r\nCSeq: 1 {m}\r\nMax-Forwards: 70\r\nContent-Length: 0\r\n\r\n",
                    m = method, i = idx
                );
                let request = request_from_text(&endpoint, text.as_bytes());
                let mut target = TargetTransportInfo { via_host_port: None, transport: Some((tp.clone(), source)) };
                let log = clog.clone();
                let tag = format!("c{}", idx);
                if method == "INVITE" {
                    let mut tsx = endpoint.send_invite(request, &mut target).await.unwrap();
                    let via = crate::tsx_client::header_lines(&tsx.request().parts.buffer, "via").join("");
                    let br = via.split("branch=").nth(1).unwrap_or("").split(';').next().unwrap_or("").trim().to_string();
                    client_branch.insert(idx.clone(), br);
                    client_tasks.insert(idx, tokio::spawn(async move {
                        loop {
                            match tsx.receive().await {
                                Ok(Some(_)) => log.lock().push(tag.clone()),
                                _ => break,
                            }
                        }
                        std::future::pending::<()>().await;
                    }));
                } else {
                    let mut tsx = endpoint.send_request(request, &mut target).await.unwrap();
                    let via = crate::tsx_client::header_lines(&tsx.request().parts.buffer, "via").join("");
                    let br = via.split("branch=").nth(1).unwrap_or("").split(';').next().unwrap_or("").trim().to_string();
                    client_branch.insert(idx.clone(), br);
                    client_tasks.insert(idx, tokio::spawn(async move {
                        loop {
                            match tsx.receive().await {
                                Ok(r) => {
                                    log.lock().push(tag.clone());
                                    if r.line.code.into_u16() >= 200 {
                                        break;
                                    }
                                }
                                _ => break,
                            }
                        }
                        std::future::pending::<()>().await;
                    }));
                }
                settle_now().await;
            }
            "S" => {
                let n: usize = p[1].parse().unwrap();
                let mut req = held.lock()[n].take().expect("held request gone");
                let tsx = endpoint.create_server_inv_tsx(&mut req);
                let resp = endpoint.create_response(&req, Code::OK, None);
                let acc = tsx.respond_success(resp).await.unwrap();
                accepted.insert(n, acc);
                held.lock()[n] = Some(req);
                settle_now().await;
            }
            "X" => {
                let what = p[1];
                if let Some(n) = what.strip_prefix('h') {
                    let n: usize = n.parse().unwrap();
                    let r = held.lock()[n].take();
                    drop(r);
                } else if let Some(n) = what.strip_prefix('a') {
                    let n: usize = n.parse().unwrap();
                    accepted.remove(&n);
                } else if let Some(i) = what.strip_prefix('c') {
                    if let Some(t) = client_tasks.remove(i) {
                        t.abort();
                    }
                }
                settle_now().await;
            }
            _ => panic!("bad event"),
        }
        outs.push(format!("{}/{}", obs, endpoint.verif_counts().0));
    }
    for (_, t) in client_tasks {
        t.abort();
    }
    outs.join(";")
}
