//! In-memory connection-oriented transports: a StreamingTransport over tokio::io::DuplexStream,
//! a StreamingFactory handing out one end (the harness keeps the peer end) and a listener.
#![allow(dead_code)]
use parking_lot::Mutex;
use sip_core::transport::streaming::{
    StreamingFactory, StreamingListener, StreamingListenerBuilder, StreamingTransport,
};
use sip_types::uri::UriInfo;
use std::io;
use std::net::SocketAddr;
use std::pin::Pin;
use std::sync::atomic::{AtomicBool, AtomicUsize, Ordering};
use std::sync::Arc;
use std::task::{Context, Poll};
use tokio::io::{AsyncRead, AsyncWrite, DuplexStream, ReadBuf};
use tokio::net::ToSocketAddrs;
use tokio::sync::mpsc;

pub struct MockStream<const SECURE: bool> {
    pub io: DuplexStream,
    pub local: SocketAddr,
    pub peer: SocketAddr,
}

/// bytes written by the peer become readable at this instant only (they sit in the socket buffer until then); the instant
/// need not fall on a millisecond, which lets a message arrive strictly before a timer that the runtime fires in the same tick
pub static READ_GATE: parking_lot::Mutex<Option<tokio::time::Instant>> = parking_lot::Mutex::new(None);

impl<const SECURE: bool> AsyncRead for MockStream<SECURE> {
    fn poll_read(mut self: Pin<&mut Self>, cx: &mut Context<'_>, buf: &mut ReadBuf<'_>) -> Poll<io::Result<()>> {
        let gate = *READ_GATE.lock();
        if let Some(g) = gate {
            if tokio::time::Instant::now() < g {
                let w = cx.waker().clone();
                tokio::spawn(async move {
                    tokio::time::sleep_until(g).await;
                    w.wake();
                });
                return Poll::Pending;
            }
        }
        Pin::new(&mut self.io).poll_read(cx, buf)
    }
}

impl<const SECURE: bool> AsyncWrite for MockStream<SECURE> {
    fn poll_write(mut self: Pin<&mut Self>, cx: &mut Context<'_>, buf: &[u8]) -> Poll<io::Result<usize>> {
        Pin::new(&mut self.io).poll_write(cx, buf)
    }
    fn poll_flush(mut self: Pin<&mut Self>, cx: &mut Context<'_>) -> Poll<io::Result<()>> {
        Pin::new(&mut self.io).poll_flush(cx)
    }
    fn poll_shutdown(mut self: Pin<&mut Self>, cx: &mut Context<'_>) -> Poll<io::Result<()>> {
        Pin::new(&mut self.io).poll_shutdown(cx)
    }
}

impl<const SECURE: bool> StreamingTransport for MockStream<SECURE> {
    const NAME: &'static str = if SECURE { "TLS" } else { "TCP" };
    const SECURE: bool = SECURE;
    fn local_addr(&self) -> io::Result<SocketAddr> {
        Ok(self.local)
    }
    fn peer_addr(&self) -> io::Result<SocketAddr> {
        Ok(self.peer)
    }
}

/// what the harness keeps of every connection made through a factory
pub struct PeerEnd {
    pub local: SocketAddr,
    pub remote: SocketAddr,
    pub io: Option<DuplexStream>,
}

#[derive(Clone)]
pub struct MockStreamFactory<const SECURE: bool> {
    pub ok: Arc<AtomicBool>,
    pub connects: Arc<AtomicUsize>,
    pub peers: Arc<Mutex<Vec<PeerEnd>>>,
    pub port_base: u16,
    /// when set, a connected stream reports this as its peer address instead of the address that was dialled (a connection made
    /// through the unspecified address, a tunnel, a factory that canonicalises addresses)
    pub peer_alias: Arc<Mutex<Option<SocketAddr>>>,
}

impl<const SECURE: bool> MockStreamFactory<SECURE> {
    pub fn new(ok: bool, port_base: u16) -> Self {
        Self {
            ok: Arc::new(AtomicBool::new(ok)),
            connects: Arc::new(AtomicUsize::new(0)),
            peers: Default::default(),
            port_base,
            peer_alias: Default::default(),
        }
    }
}

#[async_trait::async_trait]
impl<const SECURE: bool> StreamingFactory for MockStreamFactory<SECURE> {
    type Transport = MockStream<SECURE>;

    async fn connect<A: ToSocketAddrs + Send>(&self, _uri_info: &UriInfo, addr: A) -> io::Result<Self::Transport> {
        let remote = tokio::net::lookup_host(addr)
            .await?
            .next()
            .ok_or_else(|| io::Error::new(io::ErrorKind::Other, "no address"))?;
        let n = self.connects.fetch_add(1, Ordering::SeqCst);
        if !self.ok.load(Ordering::SeqCst) {
            return Err(io::Error::new(io::ErrorKind::ConnectionRefused, "mock connect refused"));
        }
        let (a, b) = tokio::io::duplex(1 << 20);
        let local: SocketAddr = if remote.is_ipv4() {
            format!("10.0.0.1:{}", self.port_base + n as u16).parse().unwrap()
        } else {
            format!("[2001:db8::1]:{}", self.port_base + n as u16).parse().unwrap()
        };
        self.peers.lock().push(PeerEnd { local, remote, io: Some(b) });
        let peer = (*self.peer_alias.lock()).unwrap_or(remote);
        Ok(MockStream { io: a, local, peer })
    }
}

pub struct MockListener<const SECURE: bool> {
    pub rx: mpsc::UnboundedReceiver<(MockStream<SECURE>, SocketAddr)>,
}

#[async_trait::async_trait]
impl<const SECURE: bool> StreamingListener for MockListener<SECURE> {
    type Transport = MockStream<SECURE>;
    async fn accept(&mut self) -> io::Result<(Self::Transport, SocketAddr)> {
        match self.rx.recv().await {
            Some(x) => Ok(x),
            None => std::future::pending().await,
        }
    }
}

pub struct MockListenerBuilder<const SECURE: bool> {
    pub rx: mpsc::UnboundedReceiver<(MockStream<SECURE>, SocketAddr)>,
}

#[async_trait::async_trait]
impl<const SECURE: bool> StreamingListenerBuilder for MockListenerBuilder<SECURE> {
    type Transport = MockStream<SECURE>;
    type StreamingListener = MockListener<SECURE>;

    async fn bind<A: ToSocketAddrs + Send>(self, _addr: A) -> io::Result<(Self::StreamingListener, SocketAddr)> {
        Ok((MockListener { rx: self.rx }, "10.0.0.1:5060".parse().unwrap()))
    }
}
