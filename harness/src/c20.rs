//! C20: STUN codec, demultiplexing and the client's retry schedule.
//!   enc   : <mode rfc|pad> <class> <tsx hex> <attrs '|'-sep>   -> B=<hex> then the parse of the built bytes
//!   dec   : <hex message> <queries '|'-sep>                     -> decoded values per query
//!   demux : <hex bytes>                                          -> is_stun_message + parse_complete class
//!   cli   : <reliable 0|1> <response time ms | - > <wrong-id response time | ->  -> send instants, result, pending
use crate::common::*;
use parking_lot::Mutex;
use sip_core::transport::{parse_complete, CompleteItem};
use sip_types::parse::Parser;
use std::borrow::Cow;
use std::net::SocketAddr;
use std::sync::Arc;
use std::time::Duration;
use stun_types::attributes::turn::*;
use stun_types::attributes::*;
use stun_types::builder::MessageBuilder;
use stun_types::header::{Class, Method};
use stun_types::parse::ParsedMessage;

pub fn run(cases: &[Vec<String>]) {
    for case in cases {
        let id = case[0].clone();
        take_panics();
        let c = case.clone();
        let out = match case[2].as_str() {
            "enc" => guard(move || run_enc(&c)),
            "dec" => guard(move || format!("P={}", decode_all(unhex(&c[3]), &c[4]))),
            "demux" => guard(move || run_demux(&unhex(&c[3]))),
            "cli" => match run_async_case(1, move || run_cli(c)) {
                Ok(s) => s,
                Err(e) => format!("PANIC {}", e),
            },
            other => format!("bad kind {}", other),
        };
        let panics = take_panics();
        if panics.is_empty() {
            println!("{}\t{}", id, out);
        } else {
            println!("{}\t{}\tPANIC {}", id, out, panics.join(" | "));
        }
    }
}

fn guard<F: FnOnce() -> String + std::panic::UnwindSafe>(f: F) -> String {
    match std::panic::catch_unwind(f) {
        Ok(s) => s,
        Err(e) => {
            let msg = if let Some(s) = e.downcast_ref::<&str>() {
                s.to_string()
            } else if let Some(s) = e.downcast_ref::<String>() {
                s.clone()
            } else {
                "panic".to_string()
            };
            format!("PANIC {}", msg)
        }
    }
}

fn class_of(s: &str) -> Class {
    match s {
        "req" => Class::Request,
        "ind" => Class::Indication,
        "ok" => Class::Success,
        _ => Class::Error,
    }
}

fn addr_of(s: &str) -> SocketAddr {
    s.parse().unwrap()
}

fn run_enc(case: &[String]) -> String {
    let mode = &case[3];
    let class = class_of(&case[4]);
    let tsx = u128::from_str_radix(&case[5], 16).unwrap();
    let mut b = MessageBuilder::new(class, Method::Binding, tsx);
    b.padding_in_value_len(mode == "pad");
    let mut queries: Vec<String> = vec![];
    for a in case[6].split('|').filter(|s| !s.is_empty()) {
        let p: Vec<&str> = a.splitn(2, ':').collect();
        let arg = p.get(1).copied().unwrap_or("");
        let r = match p[0] {
            "SW" => b.add_attr(&Software::new(std::str::from_utf8(&unhex(arg)).unwrap())),
            "UN" => b.add_attr(&Username::new(std::str::from_utf8(&unhex(arg)).unwrap())),
            "RE" => b.add_attr(&Realm::new(std::str::from_utf8(&unhex(arg)).unwrap())),
            "NO" => b.add_attr(&Nonce::new(&unhex(arg))),
            "AD" => b.add_attr(&AlternateDomain::new(&unhex(arg))),
            "DA" => b.add_attr(&Data::new(&unhex(arg))),
            "MA" => b.add_attr(&MappedAddress(addr_of(arg))),
            "XM" => b.add_attr(&XorMappedAddress(addr_of(arg))),
            "AS" => b.add_attr(&AlternateServer(addr_of(arg))),
            "XP" => b.add_attr(&XorPeerAddress(addr_of(arg))),
            "XR" => b.add_attr(&XorRelayedAddress(addr_of(arg))),
            "EC" => {
                let q: Vec<&str> = arg.splitn(2, ':').collect();
                let reason = unhex(q.get(1).copied().unwrap_or(""));
                b.add_attr(&ErrorCode { number: q[0].parse().unwrap(), reason: std::str::from_utf8(&reason).unwrap() })
            }
            "UA" => b.add_attr(&UnknownAttributes(arg.split(',').filter(|s| !s.is_empty()).map(|x| x.parse().unwrap()).collect())),
            "UH" => {
                let v = unhex(arg);
                let mut h = [0u8; 32];
                h.copy_from_slice(&v);
                b.add_attr(&UserHash(h))
            }
            "PA" => {
                let q: Vec<&str> = arg.splitn(2, ':').collect();
                let params = unhex(q.get(1).copied().unwrap_or(""));
                b.add_attr(&PasswordAlgorithm { algorithm: q[0].parse().unwrap(), params: &params })
            }
            "PS" => {
                let owned: Vec<(u16, Vec<u8>)> = arg
                    .split(';')
                    .filter(|s| !s.is_empty())
                    .map(|e| {
                        let q: Vec<&str> = e.splitn(2, ':').collect();
                        (q[0].parse().unwrap(), unhex(q.get(1).copied().unwrap_or("")))
                    })
                    .collect();
                let algs: Vec<(u16, &[u8])> = owned.iter().map(|(a, p)| (*a, &p[..])).collect();
                b.add_attr(&PasswordAlgorithms { algorithms: algs })
            }
            "CN" => b.add_attr(&ChannelNumber(arg.parse().unwrap())),
            "LT" => b.add_attr(&Lifetime(arg.parse().unwrap())),
            "EP" => b.add_attr(&EvenPort(arg == "1")),
            "RT" => b.add_attr(&RequestedTransport { protocol_number: arg.parse().unwrap() }),
            "DF" => b.add_attr(&DontFragment),
            "RV" => {
                let v = unhex(arg);
                let mut h = [0u8; 8];
                h.copy_from_slice(&v);
                b.add_attr(&ReservationToken(h))
            }
            "MI" => {
                let key = MessageIntegrityKey::new_raw(Cow::Owned(unhex(arg)));
                b.add_attr_with(&MessageIntegrity::default(), &key)
            }
            "MS" => {
                let key = MessageIntegrityKey::new_raw(Cow::Owned(unhex(arg)));
                b.add_attr_with(&MessageIntegritySha256::default(), &key)
            }
            "FP" => b.add_attr(&Fingerprint),
            other => panic!("bad attr {}", other),
        };
        if r.is_err() {
            return format!("B=ENCODE-ERROR:{}", p[0]);
        }
        queries.push(if matches!(p[0], "MI" | "MS") { a.to_string() } else { p[0].to_string() });
    }
    let bytes = b.finish();
    let q = queries.join("|");
    format!("B={}\tP={}", hex(&bytes), decode_all(bytes, &q))
}

fn show_addr(r: Option<Result<SocketAddr, stun_types::Error>>) -> String {
    match r {
        None => "NONE".into(),
        Some(Ok(a)) => a.to_string(),
        Some(Err(_)) => "ERR".into(),
    }
}

/// decode the queried attributes (first occurrence each, the way get_attr works)
fn decode_all(bytes: Vec<u8>, queries: &str) -> String {
    let mut msg = match ParsedMessage::parse(bytes) {
        Ok(m) => m,
        Err(_) => return "PARSE-ERROR".into(),
    };
    let mut out: Vec<String> = vec![format!(
        "H:{}:{:024x}:{}",
        match msg.class {
            Class::Request => "req",
            Class::Indication => "ind",
            Class::Success => "ok",
            Class::Error => "err",
        },
        msg.tsx_id,
        msg.attributes.len()
    )];
    macro_rules! strattr {
        ($t:ty) => {
            match msg.get_attr::<$t>() {
                None => "NONE".to_string(),
                Some(Ok(v)) => hex(v.0.as_ref()),
                Some(Err(_)) => "ERR".to_string(),
            }
        };
    }
    for q in queries.split('|').filter(|s| !s.is_empty()) {
        let p: Vec<&str> = q.splitn(2, ':').collect();
        let arg = p.get(1).copied().unwrap_or("");
        let v = match p[0] {
            "SW" => strattr!(Software),
            "UN" => strattr!(Username),
            "RE" => strattr!(Realm),
            "NO" => strattr!(Nonce),
            "AD" => strattr!(AlternateDomain),
            "DA" => strattr!(Data),
            "MA" => show_addr(msg.get_attr::<MappedAddress>().map(|r| r.map(|a| a.0))),
            "XM" => show_addr(msg.get_attr::<XorMappedAddress>().map(|r| r.map(|a| a.0))),
            "AS" => show_addr(msg.get_attr::<AlternateServer>().map(|r| r.map(|a| a.0))),
            "XP" => show_addr(msg.get_attr::<XorPeerAddress>().map(|r| r.map(|a| a.0))),
            "XR" => show_addr(msg.get_attr::<XorRelayedAddress>().map(|r| r.map(|a| a.0))),
            "EC" => match msg.get_attr::<ErrorCode>() {
                None => "NONE".into(),
                Some(Ok(e)) => format!("{}:{}", e.number, hex(e.reason.as_bytes())),
                Some(Err(_)) => "ERR".into(),
            },
            "UA" => match msg.get_attr::<UnknownAttributes>() {
                None => "NONE".into(),
                Some(Ok(e)) => e.0.iter().map(|x| x.to_string()).collect::<Vec<_>>().join(","),
                Some(Err(_)) => "ERR".into(),
            },
            "UH" => match msg.get_attr::<UserHash>() {
                None => "NONE".into(),
                Some(Ok(e)) => hex(&e.0),
                Some(Err(_)) => "ERR".into(),
            },
            "PA" => match msg.get_attr::<PasswordAlgorithm>() {
                None => "NONE".into(),
                Some(Ok(e)) => format!("{}:{}", e.algorithm, hex(e.params)),
                Some(Err(_)) => "ERR".into(),
            },
            "PS" => match msg.get_attr::<PasswordAlgorithms>() {
                None => "NONE".into(),
                Some(Ok(e)) => e.algorithms.iter().map(|(a, p)| format!("{}:{}", a, hex(p))).collect::<Vec<_>>().join(";"),
                Some(Err(_)) => "ERR".into(),
            },
            "CN" => match msg.get_attr::<ChannelNumber>() {
                None => "NONE".into(),
                Some(Ok(e)) => e.0.to_string(),
                Some(Err(_)) => "ERR".into(),
            },
            "LT" => match msg.get_attr::<Lifetime>() {
                None => "NONE".into(),
                Some(Ok(e)) => e.0.to_string(),
                Some(Err(_)) => "ERR".into(),
            },
            "EP" => match msg.get_attr::<EvenPort>() {
                None => "NONE".into(),
                Some(Ok(e)) => (e.0 as u8).to_string(),
                Some(Err(_)) => "ERR".into(),
            },
            "RT" => match msg.get_attr::<RequestedTransport>() {
                None => "NONE".into(),
                Some(Ok(e)) => e.protocol_number.to_string(),
                Some(Err(_)) => "ERR".into(),
            },
            "DF" => match msg.get_attr::<DontFragment>() {
                None => "NONE".into(),
                Some(Ok(_)) => "present".into(),
                Some(Err(_)) => "ERR".into(),
            },
            "RV" => match msg.get_attr::<ReservationToken>() {
                None => "NONE".into(),
                Some(Ok(e)) => hex(&e.0),
                Some(Err(_)) => "ERR".into(),
            },
            "MI" => {
                let key = MessageIntegrityKey::new_raw(Cow::Owned(unhex(arg)));
                match msg.get_attr_with::<MessageIntegrity>(&key) {
                    None => "NONE".into(),
                    Some(Ok(_)) => "verified".into(),
                    Some(Err(_)) => "ERR".into(),
                }
            }
            "MS" => {
                let key = MessageIntegrityKey::new_raw(Cow::Owned(unhex(arg)));
                match msg.get_attr_with::<MessageIntegritySha256>(&key) {
                    None => "NONE".into(),
                    Some(Ok(_)) => "verified".into(),
                    Some(Err(_)) => "ERR".into(),
                }
            }
            "FP" => match msg.get_attr::<Fingerprint>() {
                None => "NONE".into(),
                Some(Ok(_)) => "verified".into(),
                Some(Err(_)) => "ERR".into(),
            },
            other => format!("?{}", other),
        };
        out.push(format!("{}={}", p[0], v));
    }
    out.join(" ")
}

fn run_demux(bytes: &[u8]) -> String {
    let s = match stun_types::is_stun_message(bytes) {
        stun_types::IsStunMessageInfo::TooShort => "TooShort".to_string(),
        stun_types::IsStunMessageInfo::No => "No".to_string(),
        stun_types::IsStunMessageInfo::Yes { remaining } => format!("Yes:{}", remaining),
        stun_types::IsStunMessageInfo::YesIncomplete { needed } => format!("Incomplete:{}", needed),
    };
    let p = match parse_complete(Parser::default(), bytes) {
        Ok(CompleteItem::Sip { .. }) => "Sip",
        Ok(CompleteItem::Stun(_)) => "Stun",
        Ok(CompleteItem::KeepAliveRequest) | Ok(CompleteItem::KeepAliveResponse) => "KA",
        Err(_) => "Err",
    };
    format!("{} {}", s, p)
}

// ---------------- client ----------------
struct Tp(bool);
impl stun::TransportInfo for Tp {
    fn reliable(&self) -> bool {
        self.0
    }
}

struct User {
    sends: Arc<Mutex<Vec<u64>>>,
    unmatched: Arc<Mutex<u32>>,
    start: tokio::time::Instant,
    fail_from: Option<usize>,
    // the first transmission's send future takes this long to complete (a transport that yields while sending)
    linger: Option<u64>,
}

#[async_trait::async_trait]
impl stun::StunEndpointUser for User {
    type Transport = Tp;
    async fn send_to(&self, _bytes: &[u8], _target: SocketAddr, _transport: &Tp) -> std::io::Result<()> {
        let first = {
            let mut sends = self.sends.lock();
            if let Some(k) = self.fail_from {
                if sends.len() >= k {
                    return Err(std::io::Error::new(std::io::ErrorKind::Other, "mock send failure"));
                }
            }
            sends.push((tokio::time::Instant::now() - self.start).as_millis() as u64);
            sends.len() == 1
        };
        if let (true, Some(ms)) = (first, self.linger) {
            tokio::time::sleep(Duration::from_millis(ms)).await;
        }
        Ok(())
    }
    async fn receive(&self, _message: stun::IncomingMessage<Tp>) {
        *self.unmatched.lock() += 1;
    }
}

pub async fn run_cli(case: Vec<String>) -> String {
    let reliable = case[3] == "1";
    let resp_at: Option<u64> = case[4].parse().ok();
    let wrong_at: Option<u64> = case.get(5).and_then(|s| s.parse().ok());
    let start = tokio::time::Instant::now();
    let sends: Arc<Mutex<Vec<u64>>> = Default::default();
    let unmatched: Arc<Mutex<u32>> = Default::default();
    // optional mode: senderr:<k> (the k-th transmission fails), abandon:<ms> (the caller drops the call after ms),
    // linger:<ms> (the first send_to completes only after ms)
    let mode = case.get(6).cloned().unwrap_or_default();
    // class of the response with the matching transaction id: success or error (both complete the request)
    let resp_class = if case.get(7).map(|s| s.as_str()) == Some("err") { Class::Error } else { Class::Success };
    let fail_from = mode.strip_prefix("senderr:").and_then(|k| k.parse().ok());
    let abandon: Option<u64> = mode.strip_prefix("abandon:").and_then(|k| k.parse().ok());
    let linger: Option<u64> = mode.strip_prefix("linger:").and_then(|k| k.parse().ok());
    let ep = Arc::new(stun::StunEndpoint::new(User { sends: sends.clone(), unmatched: unmatched.clone(), start, fail_from, linger }));
    let tsx: u128 = 0x0102030405060708090a0b0c;
    let mut b = MessageBuilder::new(Class::Request, Method::Binding, tsx);
    b.add_attr(&Software::new("probe")).unwrap();
    let bytes = b.finish();
    let target: SocketAddr = "192.0.2.1:3478".parse().unwrap();

    let ep2 = ep.clone();
    let responder = tokio::spawn(async move {
        let mut evs: Vec<(u64, u128)> = vec![];
        if let Some(t) = resp_at {
            evs.push((t, tsx));
        }
        if let Some(t) = wrong_at {
            evs.push((t, tsx ^ 1));
        }
        evs.sort();
        for (t, id) in evs {
            tokio::time::sleep_until(start + Duration::from_millis(t)).await;
            let r = MessageBuilder::new(if id == tsx { resp_class } else { Class::Success }, Method::Binding, id).finish();
            let msg = ParsedMessage::parse(r).unwrap();
            ep2.receive(msg, target, Tp(false)).await;
        }
    });
    let tp = Tp(reliable);
    let call = ep.send_request(stun::Request { bytes: &bytes, tsx_id: tsx, transport: &tp }, target);
    let res = match abandon {
        Some(ms) => match tokio::time::timeout(Duration::from_millis(ms), call).await {
            Ok(r) => r,
            Err(_) => Err(std::io::Error::new(std::io::ErrorKind::TimedOut, "abandoned")),
        },
        None => call.await,
    };
    let done = (tokio::time::Instant::now() - start).as_millis() as u64;
    let pending = ep.verif_pending();
    let _ = tokio::time::timeout(Duration::from_secs(200), responder).await;
    let pending_after = ep.verif_pending();
    let r = match res {
        Ok(Some(m)) => format!("response:{:x}", m.tsx_id),
        Ok(None) => "timeout".to_string(),
        Err(e) if e.kind() == std::io::ErrorKind::TimedOut => "abandoned".to_string(),
        Err(_) => "io-error".to_string(),
    };
    let s: Vec<String> = sends.lock().iter().map(|x| x.to_string()).collect();
    format!("sends={} result={}@{} pending={}/{} unmatched={}", s.join(","), r, done, pending, pending_after, *unmatched.lock())
}
