mod common;
mod c01;
mod c02;
mod c03;
mod c08;
mod c04;
mod c09;
mod c10;
mod c14;
mod c15;
mod c16;
mod c18;
mod c19;
mod c20;
mod c17reg;
mod stream_mock;
mod c11;
mod tsx_client;
mod ua;
mod tsx_server;

fn main() {
    let args: Vec<String> = std::env::args().collect();
    if args.len() < 3 {
        eprintln!("usage: ezk_harness <property> <cases.tsv>");
        std::process::exit(2);
    }
    common::install_panic_hook();
    let cases = common::read_cases(&args[2]);
    match args[1].as_str() {
        "c10" => c10::run(&cases),
        "c14" => c14::run(&cases),
        "c15" => c15::run(&cases),
        "c16" => c16::run(&cases),
        "c18" => c18::run(&cases),
        "c19" => c19::run(&cases),
        "c20" => c20::run(&cases),
        "c12" | "c13" | "c17" | "ua" => ua::run(&cases),
        "c08" => c08::run(&cases),
        "c09" => c09::run(&cases),
        "c11" => c11::run(&cases),
        "c04" => c04::run(&cases),
        "c03" => c03::run(&cases),
        "c01" => c01::run(&cases),
        "c02" => c02::run(&cases),
        "c05" => tsx_client::run(&cases, false),
        "c07" => tsx_client::run(&cases, true),
        "c06" => tsx_server::run(&cases),
        other => {
            eprintln!("unknown property {}", other);
            std::process::exit(2);
        }
    }
}
