//! C06: server transactions (non-INVITE and INVITE failure) against a mock transport, paused clock.
use crate::common::*;
use parking_lot::Mutex;
use sip_core::transport::TpHandle;
use sip_core::{Endpoint, IncomingRequest, Layer, MayTake};
use sip_types::{Code, Method};
use std::net::SocketAddr;
use std::sync::Arc;

type EvLog = Arc<Mutex<Vec<(u64, u64, String)>>>;

struct TakeLayer {
    log: EvLog,
    taken: Arc<Mutex<Vec<IncomingRequest>>>,
    start: tokio::time::Instant,
}

#[async_trait::async_trait]
impl Layer for TakeLayer {
    fn name(&self) -> &'static str {
        "take"
    }
    async fn receive(&self, _endpoint: &Endpoint, request: MayTake<'_, IncomingRequest>) {
        let ms = (tokio::time::Instant::now() - self.start).as_millis() as u64;
        self.log.lock().push((next_seq(), ms, format!("L:{}", request.line.method)));
        self.taken.lock().push(request.take());
    }
}

pub fn run(cases: &[Vec<String>]) {
    for case in cases {
        let id = case[0].clone();
        let c = case.clone();
        let seed = id.bytes().fold(11u64, |a, b| a.wrapping_mul(131).wrapping_add(b as u64));
        take_panics();
        let res = run_async_case(seed, move || run_case(c));
        let panics = take_panics();
        match res {
            Ok(s) if panics.is_empty() => println!("{}\t{}", id, s),
            Ok(s) => println!("{}\t{}\tPANIC {}", id, s, panics.join(" | ")),
            Err(e) => println!("{}\tPANIC {} {}", id, e, panics.join(" | ")),
        }
    }
}

fn req_text(method: &str, cseq_method: &str, tp: &str, branch: &str) -> Vec<u8> {
    format!(
        "{m} sip:me@10.0.0.1 SIP/2.0\r\nVia: SIP/2.0/{tp} 10.9.9.9:5060{branch}\r\nVia: SIP/2.0/UDP 10.8.8.8;branch=z9hG4bKup\r\nFrom: <sip:peer@example.org>;tag=pf\r\nTo: <sip:me@example.org>\r\nCall-ID: srv-call\r\nCSeq: 9 {cm}\r\nMax-Forwards: 70\r\nContent-Length: 0\r\n\r\n",
        m = method, cm = cseq_method, tp = tp, branch = branch
    )
    .into_bytes()
}

pub async fn run_case(case: Vec<String>) -> String {
    let kind = case[2].clone();
    let reliable = case[3] == "1";
    let code: u16 = case[4].parse().unwrap();
    let t0: u64 = case[5].parse().unwrap();
    let events: Vec<(u64, String)> = case[6]
        .split(',')
        .filter(|s| !s.is_empty())
        .map(|s| {
            let p: Vec<&str> = s.split(':').collect();
            (p[0].parse().unwrap(), p[1].to_string())
        })
        .collect();
    let horizon: u64 = case[7].parse().unwrap();
    let provs: Vec<u64> = case
        .get(8)
        .map(|s| s.split(',').filter(|x| !x.is_empty()).map(|x| x.parse().unwrap()).collect())
        .unwrap_or_default();

    let clock = Clock::new();
    let wire: WireLog = Default::default();
    let source: SocketAddr = "10.9.9.9:5060".parse().unwrap();
    let mut mock = MockTp::udp(wire.clone(), clock.0);
    mock.reliable = reliable;
    if reliable {
        mock.name = "TCP";
    }
    let tpname = mock.name;
    let fail_send = mock.fail_send.clone();
    let tp = TpHandle::new(mock);
    let evlog: EvLog = Default::default();
    let taken: Arc<Mutex<Vec<IncomingRequest>>> = Default::default();
    let mut builder = Endpoint::builder();
    builder.add_unmanaged_transport(tp.clone());
    builder.add_layer(TakeLayer { log: evlog.clone(), taken: taken.clone(), start: clock.0 });
    let endpoint = builder.build();

    let method = if kind == "inv" { "INVITE" } else { "OPTIONS" };
    // top-Via branch of the peer: RFC 3261 style (magic cookie), RFC 2543 style (no cookie) or none at all
    let branch = match case.get(9).map(|s| s.as_str()) {
        Some("legacy") => ";branch=776asdhds",
        Some("none") => "",
        _ => ";branch=z9hG4bKsrv1",
    };
    let req = req_text(method, method, tpname, branch);
    let ack = req_text("ACK", "ACK", tpname, branch);
    assert!(inject(&endpoint, &req, source, &tp));
    settle_now().await;
    let mut request = taken.lock().pop().expect("request not delivered to the layer");
    evlog.lock().clear();

    let start = clock.0;
    let now_ms = move || (tokio::time::Instant::now() - start).as_millis() as u64;
    let ev2 = evlog.clone();
    let ep2 = endpoint.clone();
    let is_inv = kind == "inv";
    let responder = tokio::spawn(async move {
        if is_inv {
            let mut tsx = ep2.create_server_inv_tsx(&mut request);
            let mk = |c: u16| ep2.create_response(&request, Code::from(c), None);
            for p in provs {
                let n = now_ms();
                if p > n {
                    tokio::time::sleep(std::time::Duration::from_millis(p - n)).await;
                }
                let mut r = mk(180);
                let res = tsx.respond_provisional(&mut r).await;
                ev2.lock().push((next_seq(), now_ms(), format!("p:{}", if res.is_ok() { "ok" } else { "err" })));
            }
            let n = now_ms();
            if t0 > n {
                tokio::time::sleep(std::time::Duration::from_millis(t0 - n)).await;
            }
            let res = tsx.respond_failure(mk(code)).await;
            let tag = match res {
                Ok(()) => "D".to_string(),
                Err(sip_core::Error::RequestTimedOut) => "T".to_string(),
                Err(e) => format!("E:{:?}", e),
            };
            ev2.lock().push((next_seq(), now_ms(), tag));
        } else {
            let mut tsx = ep2.create_server_tsx(&mut request);
            let mk = |c: u16| ep2.create_response(&request, Code::from(c), None);
            for p in provs {
                let n = now_ms();
                if p > n {
                    tokio::time::sleep(std::time::Duration::from_millis(p - n)).await;
                }
                let mut r = mk(100);
                let res = tsx.respond_provisional(&mut r).await;
                ev2.lock().push((next_seq(), now_ms(), format!("p:{}", if res.is_ok() { "ok" } else { "err" })));
            }
            let n = now_ms();
            if t0 > n {
                tokio::time::sleep(std::time::Duration::from_millis(t0 - n)).await;
            }
            let res = tsx.respond(mk(code)).await;
            let tag = match res {
                Ok(()) => "D".to_string(),
                Err(e) => format!("E:{:?}", e),
            };
            ev2.lock().push((next_seq(), now_ms(), tag));
        }
        drop(request);
    });

    for (t, kind) in &events {
        advance_to(&clock, *t).await;
        match kind.as_str() {
            "R" => {
                inject(&endpoint, &req, source, &tp);
            }
            "A" => {
                inject(&endpoint, &ack, source, &tp);
            }
            "X" => {
                // a retransmission whose answer the transport refuses to send (a transient sendto error)
                fail_send.store(true, std::sync::atomic::Ordering::SeqCst);
                inject(&endpoint, &req, source, &tp);
                settle_now().await;
                fail_send.store(false, std::sync::atomic::Ordering::SeqCst);
            }
            _ => {}
        }
        settle_now().await;
    }
    advance_to(&clock, horizon).await;
    settle_now().await;
    let counts = endpoint.verif_counts();
    responder.abort();

    let mut all: Vec<(u64, u64, String)> = evlog.lock().clone();
    let mut first_final: Option<Vec<u8>> = None;
    for w in wire.lock().iter() {
        let text = String::from_utf8_lossy(&w.2).to_string();
        let status: u16 = text.split(' ').nth(1).and_then(|s| s.parse().ok()).unwrap_or(0);
        let dest_ok = w.1 == source;
        let s = if status < 200 {
            "P".to_string()
        } else {
            let ident = match &first_final {
                None => {
                    first_final = Some(w.2.clone());
                    true
                }
                Some(f) => *f == w.2,
            };
            format!("S{}{}", if ident { "" } else { "!" }, if dest_ok { "" } else { "?dest" })
        };
        all.push((w.3, w.0, s));
    }
    all.sort();
    let mut out: Vec<String> = all
        .iter()
        .map(|(_, ms, s)| {
            let mut it = s.splitn(2, ':');
            let k = it.next().unwrap();
            match it.next() {
                Some(rest) => format!("{}@{}:{}", k, ms, rest),
                None => format!("{}@{}", k, ms),
            }
        })
        .collect();
    out.push(format!("tsx={}", counts.0));
    let _ = Method::ACK;
    out.join(" ")
}

async fn settle_now() {
    for _ in 0..50 {
        tokio::task::yield_now().await;
    }
}
