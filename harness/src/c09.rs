//! C09: response construction and routing (create_response, received/rport stamping, destination, Content-Length).
use crate::common::*;
use parking_lot::Mutex;
use sip_core::transport::{Direction, TpHandle};
use sip_core::{Endpoint, IncomingRequest};
use sip_types::{Code, Name};
use std::net::SocketAddr;
use std::sync::Arc;

pub fn run(cases: &[Vec<String>]) {
    for case in cases {
        let id = case[0].clone();
        let c = case.clone();
        take_panics();
        let res = run_async_case(1, move || run_case(c));
        let panics = take_panics();
        match res {
            Ok(s) if panics.is_empty() => println!("{}\t{}", id, s),
            Ok(s) => println!("{}\t{}\tPANIC {}", id, s, panics.join(" | ")),
            Err(e) => println!("{}\tPANIC {} {}", id, e, panics.join(" | ")),
        }
    }
}

fn sockaddr(spec: &str) -> SocketAddr {
    // v6flag:num:text:port  (text may contain ':' for IPv6, so split carefully)
    let first = spec.find(':').unwrap();
    let rest = &spec[first + 1..];
    let second = rest.find(':').unwrap();
    let rest2 = &rest[second + 1..];
    let last = rest2.rfind(':').unwrap();
    let text = &rest2[..last];
    let port: u16 = rest2[last + 1..].parse().unwrap();
    SocketAddr::new(text.parse().unwrap(), port)
}

async fn run_case(case: Vec<String>) -> String {
    if case[2] == "Q" {
        // requests: an INVITE (with whatever Content-Length the application had put there) answered with a failure, through the client
        // transaction harness; its output lists the header lines of the INVITE and of every ACK on the wire
        let mut u = vec![case[0].clone(), "c07".into()];
        u.extend(case[3..].iter().cloned());
        return crate::tsx_client::run_case(u, true).await;
    }
    // id c09 transport src vias code reason timestamp presetcl conn
    let conn_based = case[2] == "C";
    let source = sockaddr(&case[3]);
    let vias: Vec<&str> = case[4].split('~').collect();
    let code: u16 = case[5].parse().unwrap();
    let reason = if case[6] == "-" { None } else { Some(String::from_utf8(unhex(&case[6])).unwrap()) };
    let timestamps: Vec<String> = if case[7] == "-" { vec![] } else { case[7].split('|').map(|h| String::from_utf8(unhex(h)).unwrap()).collect() };
    let preset_cl = if case[8] == "-" { None } else { Some(case[8].clone()) };

    let clock = Clock::new();
    let wire: WireLog = Default::default();
    let mut mock = MockTp::udp(wire.clone(), clock.0);
    if conn_based {
        let remote = sockaddr(&case[9]);
        mock.name = "TCP";
        mock.reliable = true;
        mock.direction = Direction::Incoming(remote);
    }
    let tp = TpHandle::new(mock);
    let seen: Arc<Mutex<Vec<String>>> = Default::default();
    let taken: Arc<Mutex<Vec<IncomingRequest>>> = Default::default();
    let mut builder = Endpoint::builder();
    builder.add_layer(RecLayer { name: "rec", take: true, seen: seen.clone(), taken: taken.clone() });
    let endpoint = builder.build();

    // the Via values as separate lines, as one comma separated line, or under the compact name (all equivalent)
    let variant = case[0].bytes().fold(0u32, |a, b| a.wrapping_mul(31).wrapping_add(b as u32)) % 3;
    let mut via_lines = String::new();
    let mut via_values: Vec<String> = vec![];
    for v in &vias {
        // transport|kind|num|text|port|params
        let f: Vec<&str> = v.split('|').collect();
        let port = if f[4] == "-" { String::new() } else { format!(":{}", f[4]) };
        let params: String = f[5].split(';').filter(|p| !p.is_empty()).map(|p| format!(";{}", p)).collect();
        via_values.push(format!("SIP/2.0/{} {}{}{}", f[0], f[3], port, params));
    }
    match variant {
        1 => via_lines.push_str(&format!("Via: {}\r\n", via_values.join(", "))),
        2 => via_values.iter().for_each(|v| via_lines.push_str(&format!("v: {}\r\n", v))),
        _ => via_values.iter().for_each(|v| via_lines.push_str(&format!("Via: {}\r\n", v))),
    }
    let ts: String = timestamps.iter().map(|t| format!("Timestamp: {}\r\n", t)).collect();
    // field 11: how From / To are written in the request - name-addr (default) or the bare addr-spec form (RFC 3261 20.10: without
    // angle brackets every parameter belongs to the header, not to the URI)
    let (from_v, to_v) = match case.get(11).map(|s| s.as_str()) {
        Some("1") => ("sip:a@example.org;tag=ft;x=1", "<sip:b@example.org>"),
        Some("2") => ("sip:a@example.org;tag=ft;x=1", "sip:b@example.org"),
        Some("3") => ("<sip:a@example.org>;tag=ft;x=1", "sip:b@example.org"),
        _ => ("<sip:a@example.org>;tag=ft;x=1", "<sip:b@example.org>"),
    };
    // field 12: the Call-ID (hex), when it is to be another one than the usual: a Call-ID is a `word`, not a `token`
    let call_id = case.get(12).filter(|s| !s.is_empty() && s.as_str() != "-").map(|h| String::from_utf8(unhex(h)).unwrap()).unwrap_or_else(|| "c09-call@host".to_string());
    let text = format!(
        "OPTIONS sip:me@10.0.0.1 SIP/2.0\r\n{via}From: {from}\r\nTo: {to}\r\nCall-ID: {cid}\r\nCSeq: 4242 OPTIONS\r\n{ts}Max-Forwards: 70\r\nUser-Agent: t\r\nContent-Length: 0\r\n\r\n",
        via = via_lines, from = from_v, to = to_v, cid = call_id, ts = ts
    );
    if !inject(&endpoint, text.as_bytes(), source, &tp) {
        return "PARSE-FAIL".into();
    }
    for _ in 0..50 {
        tokio::task::yield_now().await;
    }
    let mut req = match taken.lock().pop() {
        Some(r) => r,
        None => return "NOT-DELIVERED".into(),
    };
    let mut response = endpoint.create_response(&req, Code::from(code), reason.map(|r| r.into()));
    if let Some(cl) = preset_cl {
        response.msg.headers.insert(Name::CONTENT_LENGTH, cl);
    }
    let mut tsx = endpoint.create_server_tsx(&mut req);
    let res = if code < 200 { tsx.respond_provisional(&mut response).await } else { tsx.respond(response).await };
    if let Err(e) = res {
        return format!("SEND-ERR {:?}", e);
    }
    // field 10: the request comes again (the answer was lost) from this source, 700 ms later: the stored response goes out again,
    // where the first one went
    let mut again = String::new();
    if let Some(spec) = case.get(10).filter(|s| s.as_str() != "-" && !s.is_empty()) {
        if wire.lock().len() != 1 {
            return format!("SENDS={}", wire.lock().len());
        }
        advance_to(&clock, 700).await;
        inject(&endpoint, text.as_bytes(), sockaddr(spec), &tp);
        for _ in 0..50 {
            tokio::task::yield_now().await;
        }
        let w = wire.lock();
        again = match w.len() {
            2 => format!("|R:dest={}:same={}", w[1].1, (w[1].2 == w[0].2) as u8),
            n => format!("|R:sends={}", n),
        };
        drop(w);
        wire.lock().truncate(1);
    }
    let w = wire.lock();
    if w.len() != 1 {
        return format!("SENDS={}", w.len());
    }
    let (_, dest, bytes, _) = &w[0];
    let text = String::from_utf8_lossy(bytes).to_string();
    let (head, body) = match text.split_once("\r\n\r\n") {
        Some(x) => x,
        None => return "NO-HEAD-END".into(),
    };
    let lines: Vec<&str> = head.split("\r\n").collect();
    format!("dest={}|{}|body={}{}", dest, lines.join("|"), body.len(), again)
}
