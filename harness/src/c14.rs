//! C14: transport selection for IP-literal targets over mock datagram transports, factories and connections.
use crate::common::*;
use crate::stream_mock::*;
use sip_core::transport::{Direction, Factory, TpHandle};
use sip_core::Endpoint;
use std::net::SocketAddr;
use std::sync::atomic::Ordering;
use std::sync::Arc;
use tokio::sync::mpsc;

const ADDRS: [&str; 4] = ["10.9.9.9", "10.255.8.255", "2001:db8::9", "::ffff:192.0.2.1"]; // the last one is an IPv6 address all the same; // the second one has octets at the top of the range

pub fn run(cases: &[Vec<String>]) {
    for case in cases {
        let id = case[0].clone();
        let c = case.clone();
        take_panics();
        let res = run_async_case(1, move || run_case(c));
        let panics = take_panics();
        match res {
            Ok(s) if panics.is_empty() => println!("{}\t{}", id, s),
            Ok(s) => println!("{}\t{}\tPANIC {}", id, s, panics.join(" | ")),
            Err(e) => println!("{}\tPANIC {} {}", id, e, panics.join(" | ")),
        }
    }
}

fn sock(idx: usize, port: u16) -> SocketAddr {
    let ip: std::net::IpAddr = ADDRS[idx].parse().unwrap();
    SocketAddr::new(ip, port)
}

enum AnyFactory {
    Plain(MockStreamFactory<false>),
    Secure(MockStreamFactory<true>),
}

async fn settle_now() {
    for _ in 0..80 {
        tokio::task::yield_now().await;
    }
}

async fn run_case(case: Vec<String>) -> String {
    // id c14 unmanaged factories pre uri
    let clock = Clock::new();
    let wire: WireLog = Default::default();
    let mut builder = Endpoint::builder();
    let mut n_unmanaged = 0;
    for (i, u) in case[2].split(',').filter(|s| !s.is_empty()).enumerate() {
        let p: Vec<&str> = u.split(':').collect();
        let mut m = MockTp::udp(wire.clone(), clock.0);
        m.secure = p[0] == "1";
        m.name = if m.secure { "DTLS" } else { "UDP" };
        m.bound = if p[1] == "1" {
            format!("[2001:db8::1]:{}", 5060 + i).parse().unwrap()
        } else {
            format!("10.0.0.1:{}", 5060 + i).parse().unwrap()
        };
        builder.add_unmanaged_transport(TpHandle::new(m));
        n_unmanaged += 1;
    }
    let _ = n_unmanaged;
    let mut facs: Vec<AnyFactory> = vec![];
    for (i, f) in case[3].split(',').filter(|s| !s.is_empty()).enumerate() {
        let p: Vec<&str> = f.split(':').collect();
        let ok = p[1] == "1";
        let base = 20000 + 1000 * i as u16;
        if p[0] == "1" {
            let fac = MockStreamFactory::<true>::new(ok, base);
            builder.add_transport_factory(Arc::new(fac.clone()));
            facs.push(AnyFactory::Secure(fac));
        } else {
            let fac = MockStreamFactory::<false>::new(ok, base);
            builder.add_transport_factory(Arc::new(fac.clone()));
            facs.push(AnyFactory::Plain(fac));
        }
    }
    // listeners for inbound connections
    let (tx_plain, rx_plain) = mpsc::unbounded_channel();
    let (tx_sec, rx_sec) = mpsc::unbounded_channel();
    use sip_core::transport::streaming::StreamingListenerBuilder;
    MockListenerBuilder::<false> { rx: rx_plain }.spawn(&mut builder, "10.0.0.1:5060").await.unwrap();
    MockListenerBuilder::<true> { rx: rx_sec }.spawn(&mut builder, "10.0.0.1:5061").await.unwrap();
    let endpoint = builder.build();
    settle_now().await;

    // pre-existing connections, made through separate always-connecting factories
    let pre_plain = MockStreamFactory::<false>::new(true, 30000);
    let pre_sec = MockStreamFactory::<true>::new(true, 31000);
    let mut held: Vec<TpHandle> = vec![];
    let mut pre_local: Vec<Option<SocketAddr>> = vec![];
    let mut inbound_keep = vec![];
    let dummy_uri = endpoint.parse_uri("sip:x@10.0.0.9").unwrap();
    for pc in case[4].split(',').filter(|s| !s.is_empty()) {
        // o:<secure>:<addridx>:<port>:<state>   or  i:<secure>:<addridx>:<port>
        let p: Vec<&str> = pc.split(':').collect();
        let secure = p[1] == "1";
        let remote = sock(p[2].parse().unwrap(), p[3].parse().unwrap());
        if p[0] == "o" {
            let info = dummy_uri.info();
            let h = if secure {
                Factory::create(&pre_sec, endpoint.clone(), &info, remote).await.unwrap()
            } else {
                Factory::create(&pre_plain, endpoint.clone(), &info, remote).await.unwrap()
            };
            pre_local.push(Some(h.bound()));
            match p[4] {
                "held" => held.push(h),
                "idle" => {
                    drop(h);
                    settle_now().await;
                }
                "dead" => {
                    // peer closes: the receive task ends and unregisters the connection
                    let peers = if secure { pre_sec.peers.clone() } else { pre_plain.peers.clone() };
                    let io = peers.lock().last_mut().unwrap().io.take();
                    drop(io);
                    settle_now().await; // the receive task sees EOF while the handle is still held
                    drop(h);
                    settle_now().await;
                }
                _ => panic!("bad state"),
            }
        } else {
            let (a, b) = tokio::io::duplex(1 << 16);
            let local: SocketAddr = if remote.is_ipv4() { "10.0.0.1:5060".parse().unwrap() } else { "[2001:db8::1]:5060".parse().unwrap() };
            if secure {
                tx_sec.send((MockStream::<true> { io: a, local, peer: remote }, remote)).unwrap();
            } else {
                tx_plain.send((MockStream::<false> { io: a, local, peer: remote }, remote)).unwrap();
            }
            inbound_keep.push(b);
            pre_local.push(None);
            settle_now().await;
        }
    }

    // the selection under test
    let u: Vec<&str> = case[5].split(':').collect();
    let ui = u[1].parse::<usize>().unwrap();
    let host = if ui >= 2 { format!("[{}]", ADDRS[ui]) } else { ADDRS[ui].to_string() };
    let port = if u[2] == "-" { String::new() } else { format!(":{}", u[2]) };
    // an optional fourth field: URI parameters as they may accompany the target (transport=..., lr, user=phone)
    let uparams = match u.get(3) {
        Some(&"-") | None => String::new(),
        Some(t) => format!(";{}", t.replace('+', ";")),
    };
    // an optional fifth field: how the scheme is spelled (schemes are case-insensitive)
    let spelling = u.get(4).and_then(|k| k.parse::<usize>().ok()).unwrap_or(0);
    let scheme = if u[0] == "1" { ["sips", "SIPS", "Sips", "sipS"][spelling % 4] } else { ["sip", "SIP", "Sip", "siP"][spelling % 4] };
    let uri_text = format!("{}:bob@{}{}{}", scheme, host, port, uparams);
    let uri = endpoint.parse_uri(&uri_text).unwrap();
    let before: Vec<usize> = facs
        .iter()
        .map(|f| match f {
            AnyFactory::Plain(x) => x.connects.load(Ordering::SeqCst),
            AnyFactory::Secure(x) => x.connects.load(Ordering::SeqCst),
        })
        .collect();
    let res = endpoint.select_transport(&*uri).await;
    let asked: Vec<String> = facs
        .iter()
        .enumerate()
        .filter(|(i, f)| {
            let now = match f {
                AnyFactory::Plain(x) => x.connects.load(Ordering::SeqCst),
                AnyFactory::Secure(x) => x.connects.load(Ordering::SeqCst),
            };
            now > before[*i]
        })
        .map(|(i, _)| i.to_string())
        .collect();
    let out = match res {
        Err(_) => "ERR".to_string(),
        Ok((tp, dest)) => {
            let what = match tp.direction() {
                Direction::None => format!("U{}", tp.bound().port() - 5060),
                Direction::Incoming(_) => "INBOUND".to_string(),
                Direction::Outgoing(_) => {
                    let b = tp.bound();
                    if let Some(j) = pre_local.iter().position(|l| *l == Some(b)) {
                        format!("R{}", j)
                    } else {
                        format!("N{}", (b.port() - 20000) / 1000)
                    }
                }
            };
            format!("{} secure={} dest={}", what, tp.secure() as u8, dest)
        }
    };
    // "a transport and destination pinned in the caller's target info are reused": three requests with one target info
    // pinned to a transport the endpoint does not know and an address the URI does not name
    let pin_wire: WireLog = Default::default();
    let mut pm = MockTp::udp(pin_wire.clone(), clock.0);
    pm.secure = u[0] == "1";
    pm.name = if pm.secure { "DTLS" } else { "UDP" };
    pm.bound = "10.0.0.77:7777".parse().unwrap();
    let pin_tp = TpHandle::new(pm);
    let pin_dest: SocketAddr = "192.0.2.50:7000".parse().unwrap();
    let mut target = sip_core::transport::TargetTransportInfo { via_host_port: None, transport: Some((pin_tp.clone(), pin_dest)) };
    let mut pins: Vec<String> = vec![];
    for k in 0..3 {
        let text = format!(
            "OPTIONS {} SIP/2.0\r\nFrom: <sip:al@example.org>;tag=ft1\r\nTo: <sip:bob@example.org>\r\nCall-ID: pin-{}\r\nCSeq: {} OPTIONS\r\nMax-Forwards: 70\r\nContent-Length: 0\r\n\r\n",
            uri_text, k, k + 1
        );
        let req = crate::tsx_client::request_from_text(&endpoint, text.as_bytes());
        match endpoint.create_outgoing(req, &mut target).await {
            Ok(mut o) => {
                let _ = endpoint.send_outgoing_request(&mut o).await;
                pins.push(format!("{}>{}", o.parts.transport.bound(), o.parts.destination));
            }
            Err(_) => pins.push("ERR".into()),
        }
    }
    let pinned_ok = pins.iter().all(|p| *p == format!("{}>{}", pin_tp.bound(), pin_dest)) && pin_wire.lock().len() == 3 && pin_wire.lock().iter().all(|w| w.1 == pin_dest);
    drop(held);
    drop(inbound_keep);
    format!("{} asked={}\tpin={}", out, asked.join(","), if pinned_ok { "ok".to_string() } else { pins.join(",") })
}
