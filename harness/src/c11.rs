//! C11: requests and responses built inside a dialog (sync API), both roles.
use crate::common::*;
use parking_lot::Mutex;
use sip_core::transaction::TsxResponse;
use sip_core::transport::{MessageTpInfo, TpHandle};
use sip_core::{BaseHeaders, Endpoint, IncomingRequest, LayerKey, Request};
use sip_types::header::typed::{CSeq, CallID, Contact, FromTo, MaxForwards, Routing};
use sip_types::msg::MessageLine;
use sip_types::print::AppendCtx;
use sip_types::uri::NameAddr;
use sip_types::{Code, Method, Name};
use sip_ua::dialog::{ClientDialogBuilder, Dialog, DialogLayer};
use std::net::SocketAddr;
use std::sync::atomic::Ordering;
use std::sync::Arc;

pub fn run(cases: &[Vec<String>]) {
    for case in cases {
        let id = case[0].clone();
        let c = case.clone();
        take_panics();
        let res = if c[2] == "ua" {
            // id c11 ua <role> <setup> <script> <seed>: the dialog's responses as the invite usage / acceptor sends them
            let mut u = vec![c[0].clone(), "ua".into()];
            u.extend(c[3..].iter().cloned());
            let seed: u64 = u.get(5).and_then(|s| s.parse().ok()).unwrap_or(1);
            run_async_case(seed, move || crate::ua::run_case(u))
        } else {
            run_async_case(1, move || run_case(c))
        };
        let panics = take_panics();
        match res {
            Ok(s) if panics.is_empty() => println!("{}\t{}", id, s),
            Ok(s) => println!("{}\t{}\tPANIC {}", id, s, panics.join(" | ")),
            Err(e) => println!("{}\tPANIC {} {}", id, e, panics.join(" | ")),
        }
    }
}

fn contact(ep: &Endpoint, s: &str) -> Contact {
    Contact::new(NameAddr::uri(ep.parse_uri(s).unwrap()))
}

fn show_fromto(ft: &FromTo, local_tag: &str) -> String {
    let tag = ft.tag.as_ref().map(|t| t.to_string());
    let tag = match tag {
        Some(t) if t == local_tag => "LT".to_string(),
        Some(t) => t,
        None => "-".to_string(),
    };
    format!("{}|{}", ft.uri.uri.default_print_ctx(), tag)
}

fn show_request(r: &Request, local_tag: &str) -> String {
    let from: FromTo = r.headers.get(Name::FROM).unwrap();
    let to: FromTo = r.headers.get(Name::TO).unwrap();
    let cid: CallID = r.headers.get_named().unwrap();
    let cseq: CSeq = r.headers.get_named().unwrap();
    let mf: Option<MaxForwards> = r.headers.get_named().ok();
    let routes: Vec<Routing> = r.headers.get(Name::ROUTE).unwrap_or_default();
    format!(
        "Q m={} uri={} from={} to={} cid={} cseq={} {} mf={} route={}",
        r.line.method,
        r.line.uri.default_print_ctx(),
        show_fromto(&from, local_tag),
        show_fromto(&to, local_tag),
        cid.0,
        cseq.cseq,
        cseq.method,
        mf.map(|m| m.0.to_string()).unwrap_or("-".into()),
        routes.iter().map(|r| r.uri.uri.default_print_ctx().to_string()).collect::<Vec<_>>().join(",")
    )
}

async fn run_case(case: Vec<String>) -> String {
    // fields: id c11 role callid local_uri local_tag peer_uri peer_tag peer_contact rr(list ;) invite_cseq cseq0 ops
    let role = case[2].as_str();
    let callid = &case[3];
    let local_uri = &case[4];
    let local_tag_in = &case[5];
    let peer_uri = &case[6];
    let peer_tag = &case[7];
    let peer_contact = &case[8];
    let rr: Vec<&str> = case[9].split(' ').filter(|s| !s.is_empty()).collect();
    let invite_cseq: u32 = case[10].parse().unwrap();
    let cseq0: u32 = case[11].parse().unwrap();
    let ops: Vec<&str> = case[12].split(',').filter(|s| !s.is_empty()).collect();

    let clock = Clock::new();
    let wire: WireLog = Default::default();
    let tp = TpHandle::new(MockTp::udp(wire.clone(), clock.0));
    let source: SocketAddr = "10.9.9.9:5060".parse().unwrap();
    let mut builder = Endpoint::builder();
    builder.add_unmanaged_transport(tp.clone());
    let dialog_layer: LayerKey<DialogLayer> = builder.add_layer(DialogLayer::default());
    builder.add_layer(sip_ua::invite::InviteLayer::default());
    let seen: Arc<Mutex<Vec<String>>> = Default::default();
    let taken: Arc<Mutex<Vec<IncomingRequest>>> = Default::default();
    builder.add_layer(RecLayer { name: "rec", take: true, seen: seen.clone(), taken: taken.clone() });
    let endpoint = builder.build();

    // the same route set as separate header lines or as one comma separated line (RFC 3261 7.3.1: equivalent)
    let joined = callid.bytes().fold(0u32, |a, b| a.wrapping_mul(31).wrapping_add(b as u32)) % 2 == 1;
    let rr_lines: String = if joined && !rr.is_empty() {
        format!("Record-Route: {}\r\n", rr.iter().map(|r| format!("<{}>", r)).collect::<Vec<_>>().join(", "))
    } else {
        rr.iter().map(|r| format!("Record-Route: <{}>\r\n", r)).collect()
    };
    let mut invite_req: Option<IncomingRequest> = None;
    let dialog: Dialog = if role == "S" {
        let text = format!(
            "INVITE sip:me@10.0.0.1 SIP/2.0\r\nVia: SIP/2.0/UDP 10.9.9.9:5060;branch=z9hG4bKinv\r\n{rr}From: <{pu}>;tag={pt}\r\nTo: <{lu}>\r\nCall-ID: {cid}\r\nCSeq: {cs} INVITE\r\nContact: <{pc}>\r\nMax-Forwards: 70\r\nContent-Length: 0\r\n\r\n",
            rr = rr_lines, pu = peer_uri, pt = peer_tag, lu = local_uri, cid = callid, cs = invite_cseq, pc = peer_contact
        );
        assert!(inject(&endpoint, text.as_bytes(), source, &tp));
        for _ in 0..50 {
            tokio::task::yield_now().await;
        }
        let invite = taken.lock().pop().expect("INVITE not delivered");
        let d = Dialog::new_server(endpoint.clone(), dialog_layer, &invite, contact(&endpoint, "sip:me@10.0.0.1")).unwrap();
        d.local_cseq.store(cseq0, Ordering::SeqCst);
        invite_req = Some(invite);
        d
    } else {
        let local = NameAddr::uri(endpoint.parse_uri(local_uri).unwrap());
        let target = endpoint.parse_uri(peer_uri).unwrap();
        let mut b = ClientDialogBuilder::new(endpoint.clone(), dialog_layer, local, contact(&endpoint, "sip:me@10.0.0.1"), target);
        b.call_id = CallID(callid.as_str().into());
        b.local_fromto.tag = Some(local_tag_in.as_str().into());
        b.local_cseq = invite_cseq;
        let text = format!(
            "SIP/2.0 200 OK\r\nVia: SIP/2.0/UDP 10.0.0.1:5060;branch=z9hG4bKx\r\n{rr}From: <{lu}>;tag={lt}\r\nTo: <{pu}>;tag={pt}\r\nCall-ID: {cid}\r\nCSeq: {cs} INVITE\r\nContact: <{pc}>\r\nContent-Length: 0\r\n\r\n",
            rr = rr_lines, lu = local_uri, lt = local_tag_in, pu = peer_uri, pt = peer_tag, cid = callid, cs = invite_cseq, pc = peer_contact
        );
        let msg = parse_received(&endpoint, text.as_bytes(), source, &tp).unwrap();
        let line = match msg.line {
            MessageLine::Response(l) => l,
            _ => unreachable!(),
        };
        let base_headers = BaseHeaders {
            via: msg.headers.get_named().unwrap(),
            from: msg.headers.get(Name::FROM).unwrap(),
            to: msg.headers.get(Name::TO).unwrap(),
            call_id: msg.headers.get_named().unwrap(),
            cseq: msg.headers.get_named().unwrap(),
        };
        let resp = TsxResponse { tp_info: MessageTpInfo { ..msg.tp_info }, line, base_headers, headers: msg.headers, body: msg.body };
        b.create_dialog_from_response(&resp).unwrap()
    };
    let local_tag = dialog.local_fromto.tag.as_ref().unwrap().to_string();
    let local_tag = if role == "S" { local_tag } else { String::from("\u{0}never") };

    let dialog = Arc::new(dialog);
    let mut outs: Vec<String> = vec![];
    for op in ops {
        let p: Vec<&str> = op.split(':').collect();
        match p[0] {
            "Q" => {
                let r = dialog.create_request(Method::from(p[1]));
                outs.push(show_request(&r, &local_tag));
            }
            "P" => {
                // the PRACK for a (later) reliable provisional response of this dialog whose Contact is another one than the dialog's remote
                // target (an announcement server): a 1xx is no target refresh, the PRACK goes to the remote target like every request
                let text = format!(
                    "SIP/2.0 183 Session Progress\r\nVia: SIP/2.0/UDP 10.0.0.1:5060;branch=z9hG4bKx\r\nFrom: <{lu}>;tag=lt\r\nTo: <{pu}>;tag={pt}\r\nCall-ID: {cid}\r\nCSeq: {cs} INVITE\r\nRequire: 100rel\r\nRSeq: {rs}\r\nContact: \"Announcements\" <sip:media{k}@192.0.2.77:5080>\r\nContent-Length: 0\r\n\r\n",
                    lu = local_uri, pu = peer_uri, pt = peer_tag, cid = callid, cs = invite_cseq, rs = 7, k = p[1]
                );
                let msg = parse_received(&endpoint, text.as_bytes(), source, &tp).unwrap();
                let line = match msg.line {
                    MessageLine::Response(l) => l,
                    _ => unreachable!(),
                };
                let base_headers = BaseHeaders {
                    via: msg.headers.get_named().unwrap(),
                    from: msg.headers.get(Name::FROM).unwrap(),
                    to: msg.headers.get(Name::TO).unwrap(),
                    call_id: msg.headers.get_named().unwrap(),
                    cseq: msg.headers.get_named().unwrap(),
                };
                let mut resp = TsxResponse { tp_info: MessageTpInfo { ..msg.tp_info }, line, base_headers, headers: msg.headers, body: msg.body };
                let r = sip_ua::invite::prack::create_prack(&dialog, &mut resp, 7);
                outs.push(show_request(&r, &local_tag));
            }
            "J" => {
                // concurrent creation from several tasks
                let n: usize = p[1].parse().unwrap();
                let mut hs = vec![];
                for _ in 0..n {
                    let d = dialog.clone();
                    hs.push(tokio::spawn(async move {
                        tokio::task::yield_now().await;
                        let r = d.create_request(Method::INFO);
                        let c: CSeq = r.headers.get_named().unwrap();
                        c.cseq
                    }));
                }
                let mut cs = vec![];
                for h in hs {
                    cs.push(h.await.unwrap());
                }
                cs.sort();
                outs.push(format!("J {}", cs.iter().map(|c| c.to_string()).collect::<Vec<_>>().join(",")));
            }
            "T" => {
                // creation from several OS threads at once (real parallelism)
                let threads: usize = p[1].parse().unwrap();
                let iters: usize = p[2].parse().unwrap();
                let mut all: Vec<u32> = Vec::with_capacity(threads * iters);
                let mut per_thread_sorted = true;
                std::thread::scope(|sc| {
                    let mut hs = vec![];
                    for _ in 0..threads {
                        let d = dialog.clone();
                        hs.push(sc.spawn(move || {
                            let mut v = Vec::with_capacity(iters);
                            for _ in 0..iters {
                                let r = d.create_request(Method::INFO);
                                let c: CSeq = r.headers.get_named().unwrap();
                                v.push(c.cseq);
                            }
                            v
                        }));
                    }
                    for h in hs {
                        let v = h.join().unwrap();
                        if v.windows(2).any(|w| w[0] >= w[1]) {
                            per_thread_sorted = false;
                        }
                        all.extend(v);
                    }
                });
                all.sort();
                let distinct = {
                    let mut d = all.clone();
                    d.dedup();
                    d.len()
                };
                outs.push(format!(
                    "T min={} max={} n={} distinct={} increasing={}",
                    all.first().copied().unwrap_or(0),
                    all.last().copied().unwrap_or(0),
                    all.len(),
                    distinct,
                    per_thread_sorted
                ));
            }
            "R" => {
                let code: u16 = p[1].parse().unwrap();
                let inv = invite_req.as_ref().expect("R only on the UAS side");
                let resp = dialog.create_response(inv, Code::from(code), None).unwrap();
                let to: FromTo = resp.msg.headers.get(Name::TO).unwrap();
                let contact: Option<Contact> = resp.msg.headers.get_named().ok();
                let rr: Vec<Routing> = resp.msg.headers.get(Name::RECORD_ROUTE).unwrap_or_default();
                let tag = match to.tag.as_ref().map(|t| t.to_string()) {
                    Some(t) if t == local_tag => "LT".to_string(),
                    Some(t) => t,
                    None => "-".into(),
                };
                outs.push(format!(
                    "R code={} totag={} contact={} rr={}",
                    code,
                    tag,
                    contact.map(|c| c.uri.uri.default_print_ctx().to_string()).unwrap_or("-".into()),
                    rr.iter().map(|r| r.uri.uri.default_print_ctx().to_string()).collect::<Vec<_>>().join(",")
                ));
            }
            _ => panic!("bad op"),
        }
    }
    outs.join(";")
}
