//! C08: who answers an incoming request -- arbitrary stacks of recording layers around the dialog
//! layer, dialogs with recording usages, requests in and out of dialogs, stray responses.
//!   case: id c08 <stack> <dialogs> <events> [seed]
//!   stack   : ';'-separated  D | R<method letters it takes>
//!   dialogs : ';'-separated  <peer cseq>:<usage masks separated by '/'>   ('-' = none)
//!   events  : ','-separated groups; inside a group '+'-joined items are injected back to back
//!             Q:<method letter>:<dialog index|->:<cseq>:<rid>    P:<code>:<rid> (stray response)
use crate::common::*;
use parking_lot::Mutex;
use sip_core::transport::TpHandle;
use sip_core::{Endpoint, IncomingRequest, Layer, LayerKey, MayTake};
use sip_types::header::typed::Contact;
use sip_types::uri::NameAddr;
use sip_types::{Code, Method};
use sip_ua::dialog::{Dialog, DialogLayer, Usage, UsageGuard};
use std::net::SocketAddr;
use std::sync::Arc;

type Log = Arc<Mutex<Vec<(u64, String)>>>;

fn method_of(letter: char) -> &'static str {
    match letter {
        'i' => "INVITE",
        'a' => "ACK",
        'b' => "BYE",
        'c' => "CANCEL",
        'o' => "OPTIONS",
        'n' => "INFO",
        'u' => "UPDATE",
        'm' => "MESSAGE",
        _ => "FOO",
    }
}

fn letter_of(m: &Method) -> char {
    if *m == Method::INVITE {
        'i'
    } else if *m == Method::ACK {
        'a'
    } else if *m == Method::BYE {
        'b'
    } else if *m == Method::CANCEL {
        'c'
    } else if *m == Method::OPTIONS {
        'o'
    } else if *m == Method::INFO {
        'n'
    } else if *m == Method::UPDATE {
        'u'
    } else if *m == Method::MESSAGE {
        'm'
    } else {
        'x'
    }
}

fn rid_of(request: &IncomingRequest) -> String {
    let b = request.base_headers.via[0].params.get_val("branch").map(|b| b.to_string()).unwrap_or_default();
    if let Some(rid) = b.strip_prefix("z9hG4bK") {
        return rid.to_string();
    }
    // a legacy client (one cookie-less branch for all its requests): the request id is in the Call-ID
    request.base_headers.call_id.0.trim_start_matches("out-").to_string()
}

fn is_setup(request: &IncomingRequest) -> bool {
    request.base_headers.call_id.0.starts_with("setup") && request.base_headers.to.tag.is_none()
}

/// take the request and answer it the way an application would: 486 through an INVITE server
/// transaction, 200 through a non-INVITE one, nothing for ACK
fn take_and_answer(endpoint: &Endpoint, request: MayTake<'_, IncomingRequest>) {
    let mut req = request.take();
    let endpoint = endpoint.clone();
    if req.line.method == Method::ACK {
        return;
    }
    if req.line.method == Method::INVITE {
        let resp = endpoint.create_response(&req, Code::BUSY_HERE, None);
        let tsx = endpoint.create_server_inv_tsx(&mut req);
        tokio::spawn(async move {
            let _ = tsx.respond_failure(resp).await;
            drop(req);
        });
    } else {
        let resp = endpoint.create_response(&req, Code::OK, None);
        let tsx = endpoint.create_server_tsx(&mut req);
        tokio::spawn(async move {
            let _ = tsx.respond(resp).await;
            drop(req);
        });
    }
}

struct RecL {
    idx: usize,
    mask: String,
    log: Log,
}

#[async_trait::async_trait]
impl Layer for RecL {
    fn name(&self) -> &'static str {
        "rec"
    }
    async fn receive(&self, endpoint: &Endpoint, request: MayTake<'_, IncomingRequest>) {
        if is_setup(&request) {
            return;
        }
        self.log.lock().push((next_seq(), format!("L{}:{}", self.idx, rid_of(&request))));
        if self.mask.contains(letter_of(&request.line.method)) {
            take_and_answer(endpoint, request);
        }
    }
}

struct SetupL {
    taken: Arc<Mutex<Vec<IncomingRequest>>>,
}

#[async_trait::async_trait]
impl Layer for SetupL {
    fn name(&self) -> &'static str {
        "setup"
    }
    async fn receive(&self, _endpoint: &Endpoint, request: MayTake<'_, IncomingRequest>) {
        if is_setup(&request) {
            self.taken.lock().push(request.take());
        }
    }
}

struct RecU {
    d: usize,
    u: usize,
    mask: String,
    log: Log,
}

#[async_trait::async_trait]
impl Usage for RecU {
    fn name(&self) -> &'static str {
        "rec-usage"
    }
    async fn receive(&self, endpoint: &Endpoint, request: MayTake<'_, IncomingRequest>) {
        self.log.lock().push((next_seq(), format!("U{}.{}:{}", self.d, self.u, rid_of(&request))));
        if self.mask.contains(letter_of(&request.line.method)) {
            take_and_answer(endpoint, request);
        }
    }
}

pub fn run(cases: &[Vec<String>]) {
    for case in cases {
        let id = case[0].clone();
        let c = case.clone();
        let seed: u64 = c.get(5).and_then(|s| s.parse().ok()).unwrap_or(1);
        take_panics();
        let res = if c[2] == "ua" {
            // id c08 ua <role> <setup> <script> <seed>: a whole user agent (dialog + invite layers, acceptor) under a timed script
            let mut u = vec![c[0].clone(), "ua".into()];
            u.extend(c[3..].iter().cloned());
            let seed: u64 = u.get(5).and_then(|s| s.parse().ok()).unwrap_or(1);
            run_async_case(seed, move || crate::ua::run_case(u))
        } else if c[2] == "srv" {
            // id c08 srv <kind> <reliable> <code> <t0> <events> <horizon> ...: one server transaction through the C06 harness (reliable
            // and unreliable transports, with and without ACK): how often the final response goes out
            let mut u = vec![c[0].clone(), "c06".into()];
            u.extend(c[3..].iter().cloned());
            run_async_case(1, move || crate::tsx_server::run_case(u))
        } else {
            run_async_case(seed, move || run_case(c))
        };
        let panics = take_panics();
        match res {
            Ok(s) if panics.is_empty() => println!("{}\t{}", id, s),
            Ok(s) => println!("{}\t{}\tPANIC {}", id, s, panics.join(" | ")),
            Err(e) => println!("{}\tPANIC {} {}", id, e, panics.join(" | ")),
        }
    }
}

async fn run_case(case: Vec<String>) -> String {
    let clock = Clock::new();
    let wire: WireLog = Default::default();
    let tp = TpHandle::new(MockTp::udp(wire.clone(), clock.0));
    let source: SocketAddr = "10.9.9.9:5060".parse().unwrap();
    let log: Log = Default::default();
    let taken: Arc<Mutex<Vec<IncomingRequest>>> = Default::default();

    let mut builder = Endpoint::builder();
    builder.add_unmanaged_transport(tp.clone());
    let mut dialog_layer: Option<LayerKey<DialogLayer>> = None;
    for (idx, l) in case[2].split(';').filter(|s| !s.is_empty()).enumerate() {
        if l == "D" {
            dialog_layer = Some(builder.add_layer(DialogLayer::default()));
        } else {
            builder.add_layer(RecL { idx, mask: l[1..].to_string(), log: log.clone() });
        }
    }
    builder.add_layer(SetupL { taken: taken.clone() });
    let endpoint = builder.build();

    // dialogs (callee side), each with its recording usages
    let mut dialogs: Vec<Dialog> = vec![];
    let mut guards: Vec<UsageGuard> = vec![];
    let mut local_tags: Vec<String> = vec![];
    if let Some(dl) = dialog_layer {
        for (d, spec) in case[3].split(';').filter(|s| !s.is_empty() && *s != "-").enumerate() {
            let mut it = spec.splitn(2, ':');
            let cseq: u64 = it.next().unwrap().parse().unwrap();
            let masks: Vec<&str> = it.next().unwrap_or("").split('/').collect();
            let text = format!(
                "INVITE sip:me@10.0.0.1 SIP/2.0\r\nVia: SIP/2.0/UDP 10.9.9.9:5060;branch=z9hG4bKsetup{d}\r\nFrom: <sip:peer@example.org>;tag=p{d}\r\nTo: <sip:me@example.org>\r\nCall-ID: setup-{d}\r\nCSeq: {c} INVITE\r\nMax-Forwards: 70\r\nContact: <sip:peer@10.9.9.9>\r\nContent-Length: 0\r\n\r\n",
                d = d, c = cseq
            );
            assert!(inject(&endpoint, text.as_bytes(), source, &tp));
            settle().await;
            let invite = taken.lock().pop().expect("setup INVITE not taken");
            let contact = Contact::new(NameAddr::uri(endpoint.parse_uri("sip:me@10.0.0.1").unwrap()));
            let dialog = Dialog::new_server(endpoint.clone(), dl, &invite, contact).unwrap();
            taken.lock().insert(0, invite);
            local_tags.push(dialog.local_fromto.tag.as_ref().unwrap().to_string());
            for (u, m) in masks.iter().enumerate() {
                if *m == "~" {
                    continue; // dialog without usages
                }
                guards.push(dialog.register_usage(RecU { d, u, mask: m.to_string(), log: log.clone() }));
            }
            dialogs.push(dialog);
        }
    }
    wire.lock().clear();

    for group in case[4].split(',').filter(|s| !s.is_empty()) {
        for item in group.split('+') {
            let p: Vec<&str> = item.split(':').collect();
            match p[0] {
                "Q" => {
                    let m = method_of(p[1].chars().next().unwrap());
                    let rid = p[4];
                    let text = match p[2] {
                        "-" => format!(
                            "{m} sip:me@10.0.0.1 SIP/2.0\r\nVia: SIP/2.0/UDP 10.9.9.9:5060;branch=z9hG4bK{rid}\r\nFrom: <sip:peer@example.org>;tag=o{rid}\r\nTo: <sip:me@example.org>\r\nCall-ID: out-{rid}\r\nCSeq: {c} {m}\r\nMax-Forwards: 70\r\nContent-Length: 0\r\n\r\n",
                            m = m, rid = rid, c = p[3]
                        ),
                        d => {
                            let di: usize = d.parse().unwrap();
                            let tag = local_tags.get(di).cloned().unwrap_or_else(|| "nosuchdialog".into());
                            format!(
                                "{m} sip:me@10.0.0.1 SIP/2.0\r\nVia: SIP/2.0/UDP 10.9.9.9:5060;branch=z9hG4bK{rid}\r\nFrom: <sip:peer@example.org>;tag=p{d}\r\nTo: <sip:me@example.org>;tag={tag}\r\nCall-ID: setup-{d}\r\nCSeq: {c} {m}\r\nMax-Forwards: 70\r\nContent-Length: 0\r\n\r\n",
                                m = m, rid = rid, d = di, tag = tag, c = p[3]
                            )
                        }
                    };
                    inject(&endpoint, text.as_bytes(), source, &tp);
                }
                "G" => {
                    // an out-of-dialog request of a legacy client: RFC 2543 style branch, the same one for every request it sends
                    let m = method_of(p[1].chars().next().unwrap());
                    let text = format!(
                        "{m} sip:me@10.0.0.1 SIP/2.0\r\nVia: SIP/2.0/UDP 10.9.9.9:5060;branch=leg7\r\nFrom: <sip:peer@example.org>;tag=o{rid}\r\nTo: <sip:me@example.org>\r\nCall-ID: out-{rid}\r\nCSeq: {c} {m}\r\nMax-Forwards: 70\r\nContent-Length: 0\r\n\r\n",
                        m = m, rid = p[4], c = p[3]
                    );
                    inject(&endpoint, text.as_bytes(), source, &tp);
                }
                "P" => {
                    let text = format!(
                        "SIP/2.0 {code} X\r\nVia: SIP/2.0/UDP 10.0.0.1:5060;branch=z9hG4bK{rid}\r\nFrom: <sip:me@example.org>;tag=s{rid}\r\nTo: <sip:peer@example.org>;tag=t\r\nCall-ID: stray-{rid}\r\nCSeq: 1 OPTIONS\r\nContent-Length: 0\r\n\r\n",
                        code = p[1], rid = p[2]
                    );
                    inject(&endpoint, text.as_bytes(), source, &tp);
                }
                other => panic!("bad item {}", other),
            }
        }
        settle().await;
        settle().await;
    }
    // let INVITE failures be retransmitted (evidence of the INVITE server transaction) and time out: the dialog layer
    // answers an unwanted INVITE inside its delivery loop, so requests released behind it wait for that transaction
    // - one after the other, 64*T1 each: wait for as many of them as the case contains INVITE requests
    let n_inv = case[4].split(|c| c == ',' || c == '+').filter(|it| it.starts_with("Q:i:")).count() as u64;
    for _ in 0..(n_inv + 1) {
        advance_to(&clock, clock.ms() + 40000).await;
        settle().await;
    }

    let mut all: Vec<(u64, String)> = log.lock().clone();
    for w in wire.lock().iter() {
        let text = String::from_utf8_lossy(&w.2).to_string();
        let first = text.lines().next().unwrap_or("").to_string();
        let mut branch = text
            .lines()
            .find(|l| l.to_ascii_lowercase().starts_with("via:"))
            .and_then(|l| l.split("branch=z9hG4bK").nth(1))
            .map(|b| b.split(|c| c == ';' || c == ',' || c == ' ').next().unwrap_or("").to_string())
            .unwrap_or_default();
        if branch.is_empty() && text.contains("branch=leg7") {
            // the answer to a legacy client's request: identified by the Call-ID
            branch = text
                .lines()
                .find(|l| l.to_ascii_lowercase().starts_with("call-id:"))
                .map(|l| l[8..].trim().trim_start_matches("out-").to_string())
                .unwrap_or_default();
        }
        let cseq = text
            .lines()
            .find(|l| l.to_ascii_lowercase().starts_with("cseq:"))
            .map(|l| l[5..].trim().replace(' ', "_"))
            .unwrap_or_default();
        let code = first.split(' ').nth(1).unwrap_or("?").to_string();
        if first.starts_with("SIP/2.0") {
            all.push((w.3, format!("W:{}:{}:{}", branch, code, cseq)));
        } else {
            all.push((w.3, format!("WREQ:{}", first.replace(' ', "_"))));
        }
    }
    all.sort();
    let counts = endpoint.verif_counts();
    let dcounts = dialog_layer.map(|dl| endpoint[dl].verif_counts()).unwrap_or((0, 0));
    drop(guards);
    drop(dialogs);
    let out: Vec<String> = all.into_iter().map(|(_, s)| s).collect();
    format!("{} tables=tsx{}/dlg{}/backlog{}", out.join(" "), counts.0, dcounts.0, dcounts.1)
}
