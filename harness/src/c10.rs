//! C10: dialog layer CSeq ordering / key matching / usage guards, driven through the public API.
use crate::common::*;
use parking_lot::Mutex;
use sip_core::transaction::TsxResponse;
use sip_core::transport::{MessageTpInfo, TpHandle};
use sip_core::{BaseHeaders, Endpoint, IncomingRequest, Layer, LayerKey, MayTake};
use sip_types::header::typed::Contact;
use sip_types::msg::MessageLine;
use sip_types::uri::sip::SipUri;
use sip_types::uri::NameAddr;
use sip_types::Name;
use sip_ua::dialog::{ClientDialogBuilder, Dialog, DialogLayer, Usage, UsageGuard};
use std::net::SocketAddr;
use std::sync::Arc;

type UsageLog = Arc<Mutex<Vec<(u32, u32, String)>>>;

struct RecUsage {
    id: u32,
    log: UsageLog,
    /// a usage that claims every request it is offered (as the invite usage does), instead of only looking at it
    take: bool,
}

#[async_trait::async_trait]
impl Usage for RecUsage {
    fn name(&self) -> &'static str {
        "rec"
    }
    async fn receive(&self, _endpoint: &Endpoint, request: MayTake<'_, IncomingRequest>) {
        let branch = request.base_headers.via[0]
            .params
            .get_val("branch")
            .map(|b| b.to_string())
            .unwrap_or_default();
        self.log
            .lock()
            .push((self.id, request.base_headers.cseq.cseq, branch));
        if self.take {
            drop(request.take());
        }
    }
}

fn contact(ep: &Endpoint, s: &str) -> Contact {
    let uri = ep.parse_uri(s).unwrap();
    Contact::new(NameAddr::uri(uri))
}

fn request_text(method: &str, cid: &str, ft: Option<&str>, tt: Option<&str>, cseq: u64, branch: &str, extra: &str) -> Vec<u8> {
    let ft = ft.map(|t| format!(";tag={}", t)).unwrap_or_default();
    let tt = tt.map(|t| format!(";tag={}", t)).unwrap_or_default();
    format!(
        "{m} sip:me@10.0.0.1 SIP/2.0\r\nVia: SIP/2.0/UDP 10.9.9.9:5060;branch={b}\r\nFrom: <sip:peer@example.org>{ft}\r\nTo: <sip:me@example.org>{tt}\r\nCall-ID: {cid}\r\nCSeq: {cseq} {m}\r\nMax-Forwards: 70\r\n{extra}Content-Length: 0\r\n\r\n",
        m = method, b = branch, ft = ft, tt = tt, cid = cid, cseq = cseq, extra = extra
    )
    .into_bytes()
}

pub fn run(cases: &[Vec<String>]) {
    for case in cases {
        let id = &case[0];
        let setup = case[2].clone();
        let events = case[3].clone();
        let seed = id.bytes().fold(0u64, |a, b| a.wrapping_mul(131).wrapping_add(b as u64));
        take_panics();
        let take = case.get(4).map(|s| s == "take").unwrap_or(false);
        let res = run_async_case(seed, move || run_case(setup, events, take));
        let panics = take_panics();
        match res {
            Ok(s) if panics.is_empty() => println!("{}\t{}", id, s),
            Ok(s) => println!("{}\t{}\tPANIC {}", id, s, panics.join(" | ")),
            Err(e) => println!("{}\tPANIC {} {}", id, e, panics.join(" | ")),
        }
    }
}

pub async fn run_case(setup: String, events: String, take: bool) -> String {
    let clock = Clock::new();
    let wire: WireLog = Default::default();
    let tp = TpHandle::new(MockTp::udp(wire.clone(), clock.0));
    let source: SocketAddr = "10.9.9.9:5060".parse().unwrap();

    let mut builder = Endpoint::builder();
    builder.add_unmanaged_transport(tp.clone());
    let dialog_layer: LayerKey<DialogLayer> = builder.add_layer(DialogLayer::default());
    let seen: Arc<Mutex<Vec<String>>> = Default::default();
    let taken: Arc<Mutex<Vec<IncomingRequest>>> = Default::default();
    builder.add_layer(RecLayer {
        name: "rec",
        take: true,
        seen: seen.clone(),
        taken: taken.clone(),
    });
    let endpoint = builder.build();

    let ulog: UsageLog = Default::default();
    let mut dialogs: Vec<Option<Dialog>> = vec![];
    let mut local_tags: Vec<String> = vec![];
    let mut guards: Vec<Vec<Option<UsageGuard>>> = vec![];

    // the builder of the last caller-side dialog: a forked INVITE creates several dialogs (one per To-tag) through one builder
    let mut last_builder: Option<(ClientDialogBuilder, usize)> = None;
    for (i, d) in setup.split(',').enumerate() {
        let parts: Vec<&str> = d.split(':').collect();
        let (dialog, nus) = if parts[0] == "S" {
            let cseq: u64 = parts[1].parse().unwrap();
            let nus: usize = parts[2].parse().unwrap();
            let branch = format!("z9hG4bKinv{}", i);
            // the request that creates the callee-side dialog: an INVITE unless the setup names another method (S:<cseq>:<n>:<METHOD>)
            let text = request_text(
                parts.get(3).copied().unwrap_or("INVITE"),
                &format!("c{}", i),
                Some(&format!("p{}", i)),
                None,
                cseq,
                &branch,
                "Contact: <sip:peer@10.9.9.9>\r\n",
            );
            assert!(inject(&endpoint, &text, source, &tp));
            settle().await;
            let invite = taken.lock().pop().expect("INVITE not taken by rec layer");
            seen.lock().clear();
            let dialog = Dialog::new_server(
                endpoint.clone(),
                dialog_layer,
                &invite,
                contact(&endpoint, "sip:me@10.0.0.1"),
            )
            .unwrap();
            // keep the INVITE (and its transaction registration) alive for the whole case
            taken.lock().push(invite);
            (dialog, nus)
        } else {
            let nus: usize = parts[1].parse().unwrap();
            let local = NameAddr::uri(endpoint.parse_uri("sip:me@example.org").unwrap());
            let target = endpoint.parse_uri("sip:peer@10.9.9.9").unwrap();
            // "C": a new builder (own Call-ID and local tag); "F": a further fork answered through the previous builder
            let (mut b, j) = match (parts[0], last_builder.take()) {
                ("F", Some((b, j))) => (b, j),
                _ => {
                    let mut b = ClientDialogBuilder::new(
                        endpoint.clone(),
                        dialog_layer,
                        local,
                        contact(&endpoint, "sip:me@10.0.0.1"),
                        target,
                    );
                    b.call_id = sip_types::header::typed::CallID(format!("c{}", i).into());
                    b.local_fromto.tag = Some(format!("l{}", i).into());
                    (b, i)
                }
            };
            let text = format!(
                "SIP/2.0 200 OK\r\nVia: SIP/2.0/UDP 10.0.0.1:5060;branch=z9hG4bKx\r\nFrom: <sip:me@example.org>;tag=l{j}\r\nTo: <sip:peer@example.org>;tag=p{i}\r\nCall-ID: c{j}\r\nCSeq: 1 INVITE\r\nContact: <sip:peer@10.9.9.9>\r\nContent-Length: 0\r\n\r\n",
                i = i, j = j
            );
            let msg = parse_received(&endpoint, text.as_bytes(), source, &tp).unwrap();
            let line = match msg.line {
                MessageLine::Response(l) => l,
                _ => unreachable!(),
            };
            let base_headers = BaseHeaders {
                via: msg.headers.get_named().unwrap(),
                from: msg.headers.get(Name::FROM).unwrap(),
                to: msg.headers.get(Name::TO).unwrap(),
                call_id: msg.headers.get_named().unwrap(),
                cseq: msg.headers.get_named().unwrap(),
            };
            let resp = TsxResponse {
                tp_info: MessageTpInfo { ..msg.tp_info },
                line,
                base_headers,
                headers: msg.headers,
                body: msg.body,
            };
            let dialog = b.create_dialog_from_response(&resp).unwrap();
            last_builder = Some((b, j));
            (dialog, nus)
        };
        local_tags.push(dialog.local_fromto.tag.as_ref().unwrap().to_string());
        let mut gs = vec![];
        for u in 0..nus {
            gs.push(Some(dialog.register_usage(RecUsage {
                id: (i * 10 + u) as u32,
                log: ulog.clone(),
                take,
            })));
        }
        guards.push(gs);
        dialogs.push(Some(dialog));
    }
    let _ = SipUri::new; // keep import used

    let mut outs: Vec<String> = vec![];
    for ev in events.split(',').filter(|e| !e.is_empty()) {
        let p: Vec<&str> = ev.split(':').collect();
        match p[0] {
            "R" => {
                let cid = p[1].to_string();
                let ft = match p[2] {
                    "-" => None,
                    s => Some(s.to_string()),
                };
                let tt = match p[3] {
                    "-" => None,
                    s if s.starts_with('l') && s[1..].parse::<usize>().map(|i| i < local_tags.len()).unwrap_or(false) => {
                        Some(local_tags[s[1..].parse::<usize>().unwrap()].clone())
                    }
                    // "L<i>": the local tag of dialog i with the case of every letter swapped - another tag (tags are compared byte-wise)
                    s if s.starts_with('L') && s[1..].parse::<usize>().map(|i| i < local_tags.len()).unwrap_or(false) => {
                        let t = &local_tags[s[1..].parse::<usize>().unwrap()];
                        Some(t.chars().map(|c| if c.is_ascii_lowercase() { c.to_ascii_uppercase() } else { c.to_ascii_lowercase() }).collect())
                    }
                    s => Some(s.to_string()),
                };
                let cseq: u64 = p[4].parse().unwrap();
                let rid = p[5];
                let method = if p[6] == "1" { "ACK" } else { "INFO" };
                let branch = format!("z9hG4bK{}", rid);
                let text = request_text(method, &cid, ft.as_deref(), tt.as_deref(), cseq, &branch, "");
                ulog.lock().clear();
                seen.lock().clear();
                let wire_before = wire.lock().len();
                let ok = inject(&endpoint, &text, source, &tp);
                settle().await;
                if !ok {
                    outs.push("E".into());
                    continue;
                }
                let recs = std::mem::take(&mut *ulog.lock());
                let s = std::mem::take(&mut *seen.lock());
                if !s.is_empty() {
                    outs.push("N".into());
                } else if recs.is_empty() {
                    // nobody was offered anything: either the request is held, or the dialog has no usage at the moment and the dialog
                    // layer answered what it released itself (404): "Z:<cseq>/<id> ..." in the order of the answers
                    let answered: Vec<String> = wire.lock()[wire_before..]
                        .iter()
                        .filter(|w| w.2.starts_with(b"SIP/2.0 404"))
                        .map(|w| {
                            let cs = crate::tsx_client::header_lines(&w.2, "cseq").join("");
                            let via = crate::tsx_client::header_lines(&w.2, "via").join("");
                            let num = cs.split(':').nth(1).unwrap_or("").trim().split(' ').next().unwrap_or("").to_string();
                            let br = via.split("branch=z9hG4bK").nth(1).unwrap_or("").split(|c| c == ';' || c == ',').next().unwrap_or("").trim().to_string();
                            format!("{}/{}", num, br)
                        })
                        .collect();
                    if answered.is_empty() {
                        outs.push("H".into());
                    } else {
                        outs.push(format!("Z:{}", answered.join(" ")));
                    }
                } else {
                    // group per usage, preserving order
                    let mut usages: Vec<u32> = vec![];
                    for r in &recs {
                        if !usages.contains(&r.0) {
                            usages.push(r.0);
                        }
                    }
                    let lists: Vec<Vec<String>> = usages
                        .iter()
                        .map(|u| {
                            recs.iter()
                                .filter(|r| r.0 == *u)
                                .map(|r| format!("{}/{}", r.1, r.2.trim_start_matches("z9hG4bK")))
                                .collect()
                        })
                        .collect();
                    let same = lists.iter().all(|l| *l == lists[0]);
                    let d = usages[0] / 10;
                    let mut us: Vec<String> = usages.iter().map(|u| (u % 10).to_string()).collect();
                    us.sort();
                    if same && usages.iter().all(|u| u / 10 == d) {
                        outs.push(format!("V:{}:{}:{}", d, us.join("+"), lists[0].join(" ")));
                    } else {
                        outs.push(format!("X:{:?}", recs));
                    }
                }
            }
            "K" => {
                // the free function register_usage with keys of dialogs that do not exist (never did, or were torn down): it
                // returns None and leaves nothing behind
                let n: usize = p[1].parse().unwrap();
                let mut some = 0;
                for j in 0..n {
                    let key = sip_ua::dialog::DialogKey { call_id: format!("gone-{}", j).into(), peer_tag: Some("pgone".into()), local_tag: "lgone".into() };
                    let g = sip_ua::dialog::register_usage(endpoint.clone(), dialog_layer, key, RecUsage { id: 990 + j as u32, log: ulog.clone(), take });
                    if g.is_some() {
                        some += 1;
                    }
                    drop(g);
                }
                outs.push(if some == 0 { "-".into() } else { format!("registered:{}", some) });
            }
            "U" => {
                // a further usage is registered on dialog d (its number is the count of usages registered there so far)
                let d: usize = p[1].parse().unwrap();
                let u = guards[d].len();
                let g = dialogs[d].as_ref().expect("dialog dropped").register_usage(RecUsage { id: (d * 10 + u) as u32, log: ulog.clone(), take });
                guards[d].push(Some(g));
                outs.push("-".into());
            }
            "D" => {
                let d: usize = p[1].parse().unwrap();
                let u: usize = p[2].parse().unwrap();
                if let Some(g) = guards[d][u].take() {
                    drop(g);
                }
                outs.push("-".into());
            }
            "T" => {
                // several OS threads register usages in dialog d and drop the guards again, all at once (guards are dropped while other threads
                // are inside the dialog layer): afterwards none of those usages is registered any more
                let d: usize = p[1].parse().unwrap();
                let threads: usize = p[2].parse().unwrap();
                let iters: usize = p[3].parse().unwrap();
                if let Some(dialog) = dialogs[d].as_ref() {
                    std::thread::scope(|sc| {
                        for _ in 0..threads {
                            let lg = ulog.clone();
                            sc.spawn(move || {
                                for _ in 0..iters {
                                    let g = dialog.register_usage(RecUsage { id: (d * 10 + 9) as u32, log: lg.clone(), take: false });
                                    drop(g);
                                }
                            });
                        }
                    });
                }
                outs.push("-".into());
            }
            "X" => {
                // the application lets go of dialog d altogether (its usages first, then the dialog): a lost fork is released
                let d: usize = p[1].parse().unwrap();
                for g in guards[d].iter_mut() {
                    drop(g.take());
                }
                drop(dialogs[d].take());
                outs.push("-".into());
            }
            _ => panic!("bad event"),
        }
    }
    let (nd, nb) = endpoint[dialog_layer].verif_counts();
    outs.push(format!("B={}/{}", nd, nb));
    drop(guards);
    drop(dialogs);
    outs.join(";")
}

#[allow(dead_code)]
fn unused(_: &dyn Layer) {}
