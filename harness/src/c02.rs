//! C02: hostile input on the receive path.
//!   dg  : one datagram through parse_complete (hook H1): OK:<head end>:<body len> | ERR:sl=<0|1> | KA | STUN
//!   st  : a byte stream in a given segmentation through StreamingDecoder behind FramedRead (as C03)
//!   hdr : one header line inside a message, every typed decoder applied to it
//!   udp : real UDP listener (transport/udp.rs receive task) on loopback: hostile datagrams, each
//!         followed by a valid OPTIONS probe that must be answered
//!   tcp : real TCP listener (transport/streaming receive task) on loopback: hostile streams and probes
//!   ep  : scenario through the UA stack (delegated to ua.rs)
use crate::common::*;
use bytes::Bytes;
use sip_core::transport::streaming::StreamingListenerBuilder;
use sip_core::transport::tcp::TcpListener;
use sip_core::transport::udp::Udp;
use sip_core::transport::{parse_complete, CompleteItem};
use sip_core::{Endpoint, IncomingRequest, Layer, MayTake};
use sip_types::header::typed::*;
use sip_types::msg::{MessageLine, PullParser};
use sip_types::parse::{ParseCtx, Parser};
use sip_types::{Code, Method, Name};
use std::panic::{catch_unwind, AssertUnwindSafe};
use std::time::Duration;
use tokio::io::{AsyncReadExt, AsyncWriteExt};

struct OptLayer;

#[async_trait::async_trait]
impl Layer for OptLayer {
    fn name(&self) -> &'static str {
        "opt"
    }
    async fn receive(&self, endpoint: &Endpoint, request: MayTake<'_, IncomingRequest>) {
        if request.line.method == Method::OPTIONS {
            let mut req = request.take();
            let resp = endpoint.create_response(&req, Code::OK, None);
            let tsx = endpoint.create_server_tsx(&mut req);
            let _ = tsx.respond(resp).await;
        }
    }
}

pub fn run(cases: &[Vec<String>]) {
    for case in cases {
        let id = case[0].clone();
        take_panics();
        let out = match case[2].as_str() {
            "dg" => guard(|| run_dg(&unhex(&case[3]))),
            "hdr" => guard(|| run_hdr(&unhex(&case[3]))),
            "st" => {
                let c = vec![case[0].clone(), "c03".into(), case[3].clone(), String::new()];
                match run_async_case(1, move || crate::c03::run_case(c)) {
                    Ok(s) => s.split('\t').next().unwrap_or("").to_string(),
                    Err(e) => format!("PANIC {}", e),
                }
            }
            "udp" => guard(|| run_net(&case[3], false)),
            "tcp" => guard(|| run_net(&case[3], true)),
            "ep" => {
                // id c02 ep role setup script [seed] -> the UA harness' own format
                let mut c = vec![case[0].clone(), "ua".into()];
                c.extend(case[3..].iter().cloned());
                let seed: u64 = c.get(5).and_then(|s| s.parse().ok()).unwrap_or(1);
                match run_async_case(seed, move || crate::ua::run_case(c)) {
                    Ok(s) => s,
                    Err(e) => format!("PANIC {}", e),
                }
            }
            other => format!("bad kind {}", other),
        };
        let panics = take_panics();
        if panics.is_empty() {
            println!("{}\t{}", id, out);
        } else {
            println!("{}\t{}\tPANIC {}", id, out, panics.join(" | "));
        }
    }
}

fn guard<F: FnOnce() -> String>(f: F) -> String {
    match catch_unwind(AssertUnwindSafe(f)) {
        Ok(s) => s,
        Err(e) => {
            let msg = if let Some(s) = e.downcast_ref::<&str>() {
                s.to_string()
            } else if let Some(s) = e.downcast_ref::<String>() {
                s.clone()
            } else {
                "panic".to_string()
            };
            format!("PANIC {}", msg)
        }
    }
}

/// does MessageLine::parse accept the first line (as split by PullParser)?
fn start_line_ok(bytes: &[u8]) -> bool {
    let buffer = Bytes::copy_from_slice(bytes);
    let mut parser = PullParser::new(&buffer, 0);
    match parser.next() {
        Some(Ok(line)) => match std::str::from_utf8(line) {
            Ok(line) => {
                let ctx = ParseCtx::new(&buffer, Parser::default());
                MessageLine::parse(ctx)(line).is_ok()
            }
            Err(_) => false,
        },
        _ => false,
    }
}

fn run_dg(bytes: &[u8]) -> String {
    match stun_types::is_stun_message(bytes) {
        stun_types::IsStunMessageInfo::No => {}
        _ => {
            if bytes != b"\r\n\r\n" && bytes != b"\r\n" {
                // demultiplexed to the STUN parser (C20); only "no panic" is observed here
                let _ = parse_complete(Parser::default(), bytes);
                return "STUN".into();
            }
        }
    }
    match parse_complete(Parser::default(), bytes) {
        Ok(CompleteItem::Sip { body, buffer, .. }) => {
            // the head end is not exposed: with a body slice it is its offset inside the buffer
            let he = if body.is_empty() { usize::MAX } else { body.as_ptr() as usize - buffer.as_ptr() as usize };
            if he == usize::MAX {
                format!("OK:-:{}", body.len())
            } else {
                format!("OK:{}:{}", he, body.len())
            }
        }
        Ok(CompleteItem::KeepAliveRequest) | Ok(CompleteItem::KeepAliveResponse) => "KA".into(),
        Ok(CompleteItem::Stun(_)) => "STUN".into(),
        Err(_) => format!("ERR:sl={}", start_line_ok(bytes) as u8),
    }
}

/// every typed decoder on the headers of a parsed message; counts decoders that accepted
fn run_hdr(bytes: &[u8]) -> String {
    let headers = match parse_complete(Parser::default(), bytes) {
        Ok(CompleteItem::Sip { headers, .. }) => headers,
        _ => return "HDR unparsed".into(),
    };
    let mut ok = 0;
    let mut err = 0;
    macro_rules! named {
        ($($t:ty),*) => { $( match headers.get_named::<$t>() { Ok(_) => ok += 1, Err(_) => err += 1 } )* };
    }
    macro_rules! by_name {
        ($($t:ty => $n:expr),*) => { $( match headers.get::<$t>($n) { Ok(_) => ok += 1, Err(_) => err += 1 } )* };
    }
    named!(Vec<Via>, CallID, CSeq, Vec<Contact>, ContentLength, ContentType, Expires, MinExpires, MaxForwards, RAck, RSeq,
           Replaces, RetryAfter, SubscriptionState, SessionExpires, MinSe, Event, Vec<Accept>, Vec<Allow>, Vec<Supported>, Vec<Require>);
    by_name!(FromTo => Name::FROM, FromTo => Name::TO, Vec<Routing> => Name::ROUTE, Vec<Routing> => Name::RECORD_ROUTE,
             Vec<AuthChallenge> => Name::WWW_AUTHENTICATE, Vec<AuthChallenge> => Name::PROXY_AUTHENTICATE,
             AuthResponse => Name::AUTHORIZATION, AuthResponse => Name::PROXY_AUTHORIZATION);
    format!("HDR ok={} err={}", ok, err)
}

fn probe(n: usize, tcp: bool) -> Vec<u8> {
    format!(
        "OPTIONS sip:me@127.0.0.1 SIP/2.0\r\nVia: SIP/2.0/{} 127.0.0.1:5060;branch=z9hG4bKprobe{}\r\nFrom: <sip:probe@example.org>;tag=pr\r\nTo: <sip:me@example.org>\r\nCall-ID: probe-{}\r\nCSeq: 1 OPTIONS\r\nMax-Forwards: 70\r\nContent-Length: 0\r\n\r\n",
        if tcp { "TCP" } else { "UDP" }, n, n
    )
    .into_bytes()
}

/// script: comma separated  S:<hex> (send)  P (probe, must be answered)  N (tcp: new connection)
fn run_net(script: &str, tcp: bool) -> String {
    let script: Vec<String> = script.split(',').filter(|s| !s.is_empty()).map(|s| s.to_string()).collect();
    let rt = tokio::runtime::Builder::new_current_thread().enable_all().build().unwrap();
    let out = rt.block_on(async move {
        let mut builder = Endpoint::builder();
        let addr: std::net::SocketAddr;
        if tcp {
            // the listener does not report its port: take a free one first
            let tmp = std::net::TcpListener::bind("127.0.0.1:0").unwrap();
            addr = tmp.local_addr().unwrap();
            drop(tmp);
            TcpListener::new().spawn(&mut builder, addr).await.unwrap();
        } else {
            let tp = Udp::spawn(&mut builder, "127.0.0.1:0").await.unwrap();
            addr = tp.bound();
        }
        builder.add_layer(OptLayer);
        let _endpoint = builder.build();
        tokio::task::yield_now().await;

        let mut probes = 0;
        let mut answered = 0;
        let mut missed: Vec<usize> = vec![];
        if tcp {
            let mut conn = tokio::net::TcpStream::connect(addr).await.ok();
            for (i, a) in script.iter().enumerate() {
                if a == "N" {
                    drop(conn.take());
                    conn = tokio::net::TcpStream::connect(addr).await.ok();
                } else if a == "P" {
                    probes += 1;
                    let mut got = false;
                    if let Some(c) = conn.as_mut() {
                        if c.write_all(&probe(i, true)).await.is_ok() {
                            let mut buf = vec![0u8; 4096];
                            let mut acc: Vec<u8> = vec![];
                            let want = format!("z9hG4bKprobe{};", i);
                            let want2 = format!("z9hG4bKprobe{}\r", i);
                            for _ in 0..20 {
                                match tokio::time::timeout(Duration::from_millis(150), c.read(&mut buf)).await {
                                    Ok(Ok(0)) => break,
                                    Ok(Ok(n)) => {
                                        acc.extend_from_slice(&buf[..n]);
                                        let s = String::from_utf8_lossy(&acc);
                                        if s.contains("SIP/2.0 200") && (s.contains(&want) || s.contains(&want2)) {
                                            got = true;
                                            break;
                                        }
                                    }
                                    Ok(Err(_)) => break,
                                    Err(_) => {}
                                }
                            }
                        }
                    }
                    if got { answered += 1 } else { missed.push(i) }
                } else if let Some(h) = a.strip_prefix("S:") {
                    if let Some(c) = conn.as_mut() {
                        let _ = c.write_all(&unhex(h)).await;
                        let _ = c.flush().await;
                        tokio::time::sleep(Duration::from_millis(3)).await;
                    }
                }
            }
        } else {
            let sock = tokio::net::UdpSocket::bind("127.0.0.1:0").await.unwrap();
            for (i, a) in script.iter().enumerate() {
                if a == "P" {
                    probes += 1;
                    let _ = sock.send_to(&probe(i, false), addr).await;
                    let mut buf = vec![0u8; 65535];
                    let want = format!("z9hG4bKprobe{}", i);
                    let mut got = false;
                    for _ in 0..20 {
                        match tokio::time::timeout(Duration::from_millis(150), sock.recv_from(&mut buf)).await {
                            Ok(Ok((n, _))) => {
                                let s = String::from_utf8_lossy(&buf[..n]).to_string();
                                if s.starts_with("SIP/2.0 200") && s.contains(&want) {
                                    got = true;
                                    break;
                                }
                            }
                            Ok(Err(_)) => break,
                            Err(_) => {}
                        }
                    }
                    if got { answered += 1 } else { missed.push(i) }
                } else if let Some(h) = a.strip_prefix("S:") {
                    let _ = sock.send_to(&unhex(h), addr).await;
                }
            }
        }
        format!("NET probes={} answered={} missed={:?}", probes, answered, missed).replace(' ', "_").replacen("NET_", "NET ", 1)
    });
    drop(rt);
    out
}
