//! C03 / C02 (stream part): StreamingDecoder behind tokio-util's FramedRead over a scripted reader,
//! next to the datagram parse of each message (hook H1).
use crate::common::*;
use sip_core::transport::streaming::verif::{DecodeError, StreamingDecoder};
use sip_core::transport::{parse_complete, CompleteItem};
use sip_types::msg::MessageLine;
use sip_types::parse::Parser;
use sip_types::print::AppendCtx;
use sip_types::Headers;
use std::collections::VecDeque;
use std::io;
use std::pin::Pin;
use std::task::{Context, Poll};
use tokio::io::{AsyncRead, ReadBuf};
use tokio_stream::StreamExt;
use tokio_util::codec::FramedRead;

pub struct ScriptedStream {
    pub chunks: VecDeque<Vec<u8>>,
}

impl AsyncRead for ScriptedStream {
    fn poll_read(mut self: Pin<&mut Self>, _cx: &mut Context<'_>, buf: &mut ReadBuf<'_>) -> Poll<io::Result<()>> {
        if let Some(mut chunk) = self.chunks.pop_front() {
            let n = chunk.len().min(buf.remaining());
            buf.put_slice(&chunk[..n]);
            if n < chunk.len() {
                let rest = chunk.split_off(n);
                self.chunks.push_front(rest);
            }
        }
        Poll::Ready(Ok(()))
    }
}

fn show(line: &MessageLine, headers: &Headers, body: &[u8]) -> String {
    let l = line.default_print_ctx().to_string();
    let h: Vec<String> = headers.iter().map(|(n, v)| format!("{}:{}", n.as_print_str(), v)).collect();
    format!("L={};H={};B={}", hex(l.as_bytes()), hex(h.join("\n").as_bytes()), hex(body))
}

pub fn run(cases: &[Vec<String>]) {
    for case in cases {
        let id = case[0].clone();
        let c = case.clone();
        take_panics();
        let res = run_async_case(1, move || run_case(c));
        let panics = take_panics();
        match res {
            Ok(s) if panics.is_empty() => println!("{}\t{}", id, s),
            Ok(s) => println!("{}\t{}\tPANIC {}", id, s, panics.join(" | ")),
            Err(e) => println!("{}\tPANIC {} {}", id, e, panics.join(" | ")),
        }
    }
}

pub async fn run_case(case: Vec<String>) -> String {
    let chunks: VecDeque<Vec<u8>> = case[2].split('|').filter(|s| !s.is_empty()).map(unhex).collect();
    let msgs: Vec<Vec<u8>> = case.get(3).map(|m| m.split('|').filter(|s| !s.is_empty()).map(unhex).collect()).unwrap_or_default();
    let mut framed = FramedRead::new(ScriptedStream { chunks }, StreamingDecoder::new(Parser::default()));
    let mut items: Vec<String> = vec![];
    let mut shown: Vec<String> = vec![];
    // watchdog against a decoder that never makes progress
    let mut guard = 0;
    while let Some(item) = framed.next().await {
        guard += 1;
        if guard > 100000 {
            items.push("HANG".into());
            break;
        }
        match item {
            Ok(m) => {
                items.push(format!("F:{}:{}:{}", m.buffer.len(), m.buffer.len() - m.body.len(), m.body.len()));
                shown.push(show(&m.line, &m.headers, &m.body));
            }
            Err(DecodeError::MessageTooLarge) => items.push("E:TooLarge".into()),
            Err(DecodeError::Malformed) => items.push("E:Malformed".into()),
            Err(DecodeError::Io(_)) => items.push("E:IoRemaining".into()),
        }
    }
    let mut dg: Vec<String> = vec![];
    for m in &msgs {
        match parse_complete(Parser::default(), m) {
            Ok(CompleteItem::Sip { line, headers, body, .. }) => dg.push(show(&line, &headers, &body)),
            Ok(_) => dg.push("OTHER".into()),
            Err(_) => dg.push("ERR".into()),
        }
    }
    format!("{}\tS[{}]\tD[{}]", items.join(" "), shown.join(" "), dg.join(" "))
}
