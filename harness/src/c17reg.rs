//! C17 (registration part): Registration refresh instants, CSeq / Call-ID of successive REGISTERs.
use crate::common::*;
use parking_lot::Mutex;
use sip_core::transaction::TsxResponse;
use sip_core::transport::{MessageTpInfo, TpHandle};
use sip_core::{BaseHeaders, Endpoint};
use sip_types::header::typed::{CSeq, CallID};
use sip_types::msg::MessageLine;
use sip_types::uri::NameAddr;
use sip_types::Name;
use sip_ua::register::Registration;
use std::net::SocketAddr;
use std::sync::Arc;
use std::time::Duration;

fn response(ep: &Endpoint, tp: &TpHandle, code: u16, extra: &str) -> TsxResponse {
    let source: SocketAddr = "10.9.9.9:5060".parse().unwrap();
    let text = format!(
        "SIP/2.0 {} X\r\nVia: SIP/2.0/UDP 10.0.0.1:5060;branch=z9hG4bKr\r\nFrom: <sip:me@example.org>;tag=a\r\nTo: <sip:me@example.org>;tag=b\r\nCall-ID: x\r\nCSeq: 1 REGISTER\r\n{}Content-Length: 0\r\n\r\n",
        code, extra
    );
    let msg = parse_received(ep, text.as_bytes(), source, tp).unwrap();
    let line = match msg.line {
        MessageLine::Response(l) => l,
        _ => unreachable!(),
    };
    let base_headers = BaseHeaders {
        via: msg.headers.get_named().unwrap(),
        from: msg.headers.get(Name::FROM).unwrap(),
        to: msg.headers.get(Name::TO).unwrap(),
        call_id: msg.headers.get_named().unwrap(),
        cseq: msg.headers.get_named().unwrap(),
    };
    TsxResponse { tp_info: MessageTpInfo { ..msg.tp_info }, line, base_headers, headers: msg.headers, body: msg.body }
}

pub async fn run_case(case: Vec<String>) -> String {
    // id c17 reg <initial expiry s> <script t:ok:<expires|->, t:min:<min-expires>, t:reg> <horizon ms>
    let expiry: u64 = case[3].parse().unwrap();
    let horizon: u64 = case[5].parse().unwrap();
    let clock = Clock::new();
    let start = clock.0;
    let wire: WireLog = Default::default();
    let tp = TpHandle::new(MockTp::udp(wire.clone(), start));
    let mut builder = Endpoint::builder();
    builder.add_unmanaged_transport(tp.clone());
    let endpoint = builder.build();
    let id = NameAddr::uri(endpoint.parse_uri("sip:me@example.org").unwrap());
    let contact = NameAddr::uri(endpoint.parse_uri("sip:me@10.0.0.1").unwrap());
    let registrar = endpoint.parse_uri("sip:registrar.example.org").unwrap();
    let reg = Arc::new(tokio::sync::Mutex::new(Registration::new(id, contact, registrar, Duration::from_secs(expiry))));
    let ticks: Arc<Mutex<Vec<u64>>> = Default::default();
    let regs: Arc<Mutex<Vec<(u32, String)>>> = Default::default();
    {
        let mut r = reg.lock().await;
        let req = r.create_register(false);
        let c: CSeq = req.headers.get_named().unwrap();
        let cid: CallID = req.headers.get_named().unwrap();
        regs.lock().push((c.cseq, cid.0.to_string()));
    }
    let (r2, t2, g2) = (reg.clone(), ticks.clone(), regs.clone());
    let waiter = tokio::spawn(async move {
        loop {
            // hold the lock only while polling the interval once per virtual millisecond
            let fired = {
                let mut r = r2.lock().await;
                tokio::time::timeout(Duration::from_millis(0), r.wait_for_expiry()).await.is_ok()
            };
            if fired {
                t2.lock().push((tokio::time::Instant::now() - start).as_millis() as u64);
                let mut r = r2.lock().await;
                let req = r.create_register(false);
                let c: CSeq = req.headers.get_named().unwrap();
                let cid: CallID = req.headers.get_named().unwrap();
                g2.lock().push((c.cseq, cid.0.to_string()));
            } else {
                tokio::time::sleep(Duration::from_millis(500)).await;
            }
        }
    });
    for a in case[4].split(',').filter(|s| !s.is_empty()) {
        let p: Vec<&str> = a.split(':').collect();
        let t: u64 = p[0].parse().unwrap();
        advance_to(&clock, t).await;
        let mut r = reg.lock().await;
        match p[1] {
            "ok" => {
                let extra = if p[2] == "-" { String::new() } else { format!("Expires: {}\r\n", p[2]) };
                r.receive_success_response(response(&endpoint, &tp, 200, &extra));
            }
            "min" => {
                let _ = r.receive_error_response(response(&endpoint, &tp, 423, &format!("Min-Expires: {}\r\n", p[2])));
            }
            _ => panic!("bad reg action"),
        }
    }
    advance_to(&clock, horizon).await;
    waiter.abort();
    let regs = regs.lock().clone();
    let same_cid = regs.iter().all(|r| r.1 == regs[0].1);
    let base = regs[0].0 as u64;
    format!(
        "ticks={} cseq={} callid_same={}",
        ticks.lock().iter().map(|t| t.to_string()).collect::<Vec<_>>().join(","),
        regs.iter().map(|r| (r.0 as u64 - base).to_string()).collect::<Vec<_>>().join(","),
        same_cid
    )
}
