//! C05 / C07: client transactions against a mock transport under the paused clock.
use crate::common::*;
use parking_lot::Mutex;
use sip_core::transport::{CompleteItem, TargetTransportInfo, TpHandle};
use sip_core::{Endpoint, Request};
use sip_types::msg::MessageLine;
use std::net::SocketAddr;
use std::sync::Arc;
use std::time::Duration;

type EvLog = Arc<Mutex<Vec<(u64, u64, String)>>>; // (seq, ms, text)

pub fn request_from_text(ep: &Endpoint, text: &[u8]) -> Request {
    match sip_core::transport::parse_complete(ep.parser(), text) {
        Ok(CompleteItem::Sip { line: MessageLine::Request(line), headers, body, .. }) => Request { line, headers, body },
        _ => panic!("bad request text"),
    }
}

fn cls(code: u16) -> char {
    match code {
        100..=199 => 'P',
        200..=299 => 'S',
        _ => 'F',
    }
}

/// header lines of `name` (case-insensitive) from raw message bytes
pub fn header_lines(msg: &[u8], name: &str) -> Vec<String> {
    let text = String::from_utf8_lossy(msg);
    let head = text.split("\r\n\r\n").next().unwrap_or("");
    head.split("\r\n")
        .skip(1)
        .filter(|l| l.split(':').next().map(|n| n.trim().eq_ignore_ascii_case(name)).unwrap_or(false))
        .map(|l| l.to_string())
        .collect()
}

pub fn run(cases: &[Vec<String>], detail: bool) {
    for case in cases {
        let id = case[0].clone();
        let c = case.clone();
        let seed = id.bytes().fold(7u64, |a, b| a.wrapping_mul(131).wrapping_add(b as u64));
        take_panics();
        let res = run_async_case(seed, move || run_case(c, detail));
        let panics = take_panics();
        match res {
            Ok(s) if panics.is_empty() => println!("{}\t{}", id, s),
            Ok(s) => println!("{}\t{}\tPANIC {}", id, s, panics.join(" | ")),
            Err(e) => println!("{}\tPANIC {} {}", id, e, panics.join(" | ")),
        }
    }
}

pub async fn run_case(case: Vec<String>, detail: bool) -> String {
    let kind = case[2].as_str();
    let reliable = case[3] == "1";
    let arrivals: Vec<(u64, u16, String)> = case[4]
        .split(',')
        .filter(|s| !s.is_empty())
        .map(|s| {
            let p: Vec<&str> = s.split(':').collect();
            (p[0].parse().unwrap(), p[1].parse().unwrap(), p.get(2).unwrap_or(&"t").to_string())
        })
        .collect();
    let horizon: u64 = case[5].parse().unwrap();
    let extra_headers = case.get(6).map(|s| String::from_utf8(unhex(s)).unwrap()).unwrap_or_default();
    // instants at which the transaction table size is sampled (besides right after every arrival)
    let mut probes: Vec<u64> = case
        .get(7)
        .map(|s| s.split(',').filter(|x| !x.is_empty()).map(|x| x.parse().unwrap()).collect())
        .unwrap_or_default();
    probes.sort();
    // C07: where each response comes from: d = the INVITE's destination, p = same host other port, h = another host
    let sources: Vec<String> = case.get(8).map(|s| s.split(',').map(|x| x.to_string()).collect()).unwrap_or_default();

    let clock = Clock::new();
    let wire: WireLog = Default::default();
    let mut mock = MockTp::udp(wire.clone(), clock.0);
    mock.reliable = reliable;
    if reliable {
        mock.name = "TCP";
    }
    // the first send takes this long (virtual ms): the transaction's clocks start when it has completed
    if let Some(lat) = case.get(9).and_then(|s| s.parse::<u64>().ok()) {
        mock.first_send_delay_ms.store(lat, std::sync::atomic::Ordering::SeqCst);
    }
    // the first send returns only this long after its bytes went out: responses can arrive while the caller is still inside send
    if let Some(l) = case.get(10).and_then(|s| s.parse::<u64>().ok()) {
        mock.first_send_linger_ms.store(l, std::sync::atomic::Ordering::SeqCst);
    }
    let tp = TpHandle::new(mock);
    let dest: SocketAddr = "10.9.9.9:5060".parse().unwrap();
    let mut builder = Endpoint::builder();
    builder.add_unmanaged_transport(tp.clone());
    let endpoint = builder.build();

    let method = if kind == "inv" { "INVITE" } else { "OPTIONS" };
    // the To header can be given among the extra headers (token display name, port, URI parameters ...)
    let to_line = if extra_headers.to_ascii_lowercase().contains("\nto:") || extra_headers.to_ascii_lowercase().starts_with("to:") { "" } else { "To: <sip:bob@example.org>\r\n" };
    let text = format!(
        "{m} sip:bob@10.9.9.9;transport=udp SIP/2.0\r\nFrom: \"Al\" <sip:al@example.org;x=1>;tag=ft1\r\n{to}Call-ID: cid-77\r\nCSeq: 4711 {m}\r\nMax-Forwards: 70\r\n{extra}Content-Length: 0\r\n\r\n",
        m = method, to = to_line, extra = extra_headers
    );
    #[allow(unused_mut)]
    let mut request = request_from_text(&endpoint, text.as_bytes());
    // field 13: Content-Length values the application had put into the request's header list itself (comma separated)
    if let Some(vals) = case.get(13).filter(|s| !s.is_empty()) {
        for v in vals.split(',') {
            request.headers.insert(sip_types::Name::CONTENT_LENGTH, v.to_string());
        }
    }
    // field 11: the sent-by to put into the Via instead of the transport's own address (a public address found by STUN, a gateway name);
    // "~" stands for the colon in front of the port
    let via_host_port = case.get(11).filter(|s| !s.is_empty() && s.as_str() != "-").map(|s| {
        let (h, p) = match s.split_once('~') {
            Some((h, p)) => (h, p.parse::<u16>().ok()),
            None => (s.as_str(), None),
        };
        let host = match h.parse::<std::net::IpAddr>() {
            Ok(ip) => sip_types::host::Host::from(ip),
            Err(_) => sip_types::host::Host::Name(h.to_string().into()),
        };
        sip_types::host::HostPort { host, port: p }
    });
    let mut target = TargetTransportInfo { via_host_port, transport: Some((tp.clone(), dest)) };

    let evlog: EvLog = Default::default();
    let start = clock.0;
    let now_ms = move || (tokio::time::Instant::now() - start).as_millis() as u64;

    // driver task: the cooperative caller
    let ev2 = evlog.clone();
    let ep2 = endpoint.clone();
    let is_inv = kind == "inv";
    let use_receive_final = case.get(12).map(|s| s == "rf").unwrap_or(false);
    // field 12 = "late:<ms>": the caller starts waiting that long after send returned (the transaction's timers run from the send)
    let late_ms: Option<u64> = case.get(12).and_then(|s| s.strip_prefix("late:")).and_then(|v| v.parse().ok());
    let repoll_ms: Option<u64> = case.get(12).and_then(|s| s.strip_prefix("repoll:")).and_then(|v| v.parse().ok());
    let driver = tokio::spawn(async move {
        if is_inv {
            let mut tsx = match ep2.send_invite(request, &mut target).await {
                Ok(t) => t,
                Err(e) => {
                    ev2.lock().push((next_seq(), now_ms(), format!("E:{:?}", e)));
                    return;
                }
            };
            if let Some(ms) = late_ms {
                tokio::time::sleep(Duration::from_millis(ms)).await;
            }
            loop {
                // field 12 = "repoll:<ms>": the caller waits in slices (a select! / timeout around receive()) and calls receive() again
                let got = match repoll_ms {
                    Some(ms) => match tokio::time::timeout(Duration::from_millis(ms), tsx.receive()).await {
                        Ok(r) => r,
                        Err(_) => continue,
                    },
                    None => tsx.receive().await,
                };
                match got {
                    Ok(Some(r)) => {
                        let code = r.line.code.into_u16();
                        ev2.lock().push((next_seq(), now_ms(), format!("G:{}", cls(code))));
                    }
                    Ok(None) => {
                        ev2.lock().push((next_seq(), now_ms(), "D".into()));
                        break;
                    }
                    Err(sip_core::Error::RequestTimedOut) => {
                        ev2.lock().push((next_seq(), now_ms(), "T".into()));
                        break;
                    }
                    Err(e) => {
                        ev2.lock().push((next_seq(), now_ms(), format!("E:{:?}", e)));
                        break;
                    }
                }
            }
        } else {
            let mut tsx = match ep2.send_request(request, &mut target).await {
                Ok(t) => t,
                Err(e) => {
                    ev2.lock().push((next_seq(), now_ms(), format!("E:{:?}", e)));
                    return;
                }
            };
            if let Some(ms) = late_ms {
                tokio::time::sleep(Duration::from_millis(ms)).await;
            }
            loop {
                // field 12 = "rf": the caller uses receive_final(), which hands over the final response only
                let got = if use_receive_final {
                    tsx.receive_final().await
                } else if let Some(ms) = repoll_ms {
                    match tokio::time::timeout(Duration::from_millis(ms), tsx.receive()).await {
                        Ok(r) => r,
                        Err(_) => continue,
                    }
                } else {
                    tsx.receive().await
                };
                match got {
                    Ok(r) => {
                        let code = r.line.code.into_u16();
                        ev2.lock().push((next_seq(), now_ms(), format!("G:{}", cls(code))));
                        if !(100..200).contains(&code) || use_receive_final {
                            break;      // everything outside 1xx is final for a non-INVITE transaction
                        }
                    }
                    Err(sip_core::Error::RequestTimedOut) => {
                        ev2.lock().push((next_seq(), now_ms(), "T".into()));
                        break;
                    }
                    Err(e) => {
                        ev2.lock().push((next_seq(), now_ms(), format!("E:{:?}", e)));
                        break;
                    }
                }
            }
        }
    });

    settle_now().await; // first transmission is on the wire now
    if wire.lock().is_empty() {
        if let Some(lat) = case.get(9).and_then(|s| s.parse::<u64>().ok()) {
            advance_to(&clock, lat).await; // ... or once the slow first send has completed
            settle_now().await;
        }
    }
    let first = wire.lock().first().map(|w| w.2.clone()).unwrap_or_default();
    let via = header_lines(&first, "via").join("\r\n");
    let from = header_lines(&first, "from").join("\r\n");
    let to = header_lines(&first, "to").join("\r\n");
    let cid = header_lines(&first, "call-id").join("\r\n");
    let cseq = header_lines(&first, "cseq").join("\r\n");

    let mut pi = 0;
    let mut burst = 0;
    for (ai, (t, code, tag)) in arrivals.iter().enumerate() {
        while pi < probes.len() && probes[pi] < *t {
            advance_to(&clock, probes[pi]).await;
            settle_now().await;
            evlog.lock().push((next_seq(), probes[pi], format!("N:{}", endpoint.verif_counts().0)));
            pi += 1;
        }
        advance_to(&clock, *t).await;
        let to_line = if *code > 100 && tag != "-" { format!("{};tag={}", to, tag) } else { to.clone() };
        let resp = format!(
            "SIP/2.0 {} Reason\r\n{}\r\n{}\r\n{}\r\n{}\r\n{}\r\nContact: <sip:bob@10.9.9.9>\r\nContent-Length: 0\r\n\r\n",
            code, via, from, to_line, cid, cseq
        );
        let source: SocketAddr = match sources.get(ai).map(|s| s.as_str()) {
            Some("p") => "10.9.9.9:41234".parse().unwrap(),
            Some("h") => "10.9.9.77:5060".parse().unwrap(),
            _ => dest,
        };
        inject(&endpoint, resp.as_bytes(), source, &tp);
        // arrivals at one instant are a burst: all of them are in before the caller (or anybody else) runs again
        if arrivals.get(ai + 1).map(|n| n.0 == *t).unwrap_or(false) {
            burst += 1;
            continue;
        }
        settle_now().await;
        for _ in 0..=burst {
            evlog.lock().push((next_seq(), *t, format!("N:{}", endpoint.verif_counts().0)));
        }
        burst = 0;
    }
    while pi < probes.len() && probes[pi] < horizon {
        advance_to(&clock, probes[pi]).await;
        settle_now().await;
        evlog.lock().push((next_seq(), probes[pi], format!("N:{}", endpoint.verif_counts().0)));
        pi += 1;
    }
    advance_to(&clock, horizon).await;
    settle_now().await;
    let counts = endpoint.verif_counts();
    driver.abort();

    // merge
    let mut all: Vec<(u64, u64, String)> = evlog.lock().clone();
    let mut acks: Vec<Vec<u8>> = vec![];
    for w in wire.lock().iter() {
        let is_ack = w.2.starts_with(b"ACK ");
        let ident = w.2 == first;
        let s = if is_ack {
            acks.push(w.2.clone());
            format!("A{}", if w.1 == dest { "" } else { "!dest" })
        } else if ident {
            "S".to_string()
        } else {
            "S!".to_string()
        };
        all.push((w.3, w.0, s));
    }
    all.sort();
    let mut out: Vec<String> = all
        .iter()
        .map(|(_, ms, s)| {
            let mut it = s.splitn(2, ':');
            let k = it.next().unwrap();
            match it.next() {
                Some(rest) => format!("{}@{}:{}", k, ms, rest),
                None => format!("{}@{}", k, ms),
            }
        })
        .collect();
    out.push(format!("tsx={}", counts.0));
    let mut s = out.join(" ");
    if detail {
        // C07: the ACK's header lines next to the INVITE's (raw text, compared by the oracle)
        let show = |m: &[u8]| -> String {
            let text = String::from_utf8_lossy(m).to_string();
            let line0 = text.split("\r\n").next().unwrap_or("").to_string();
            let mut parts = vec![format!("line={}", line0)];
            for h in ["via", "from", "to", "call-id", "cseq", "route", "content-length", "l"] {
                parts.push(format!("{}={}", h, header_lines(m, h).join("&&")));
            }
            let body_len = m.windows(4).position(|w| w == b"\r\n\r\n").map(|p| m.len() - p - 4).unwrap_or(0);
            parts.push(format!("bodylen={}", body_len));
            parts.join("||")
        };
        s.push_str("\tINVITE:");
        s.push_str(&hex(show(&first).as_bytes()));
        for a in acks.iter() {
            s.push_str("\tACK:");
            s.push_str(&hex(show(a).as_bytes()));
        }
    }
    s
}

/// run every task that is ready now without advancing the virtual clock
async fn settle_now() {
    for _ in 0..50 {
        tokio::task::yield_now().await;
    }
}
