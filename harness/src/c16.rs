//! C16: table sizes over time.
//!   tsx : timed script against an endpoint whose app layer holds the requests addressed to it
//!         t:req:<m>:<rid>   out-of-dialog request nobody wants (481)     t:hold:<m>:<rid>  taken and held by the app
//!         t:drop:<rid>      the app drops a held request                  t:resp:<code>:<rid> orphan response
//!         t:retx:<rid>      retransmission of an earlier request          t:ack:<rid>       ACK for the rejection of INVITE rid
//!         t:cancel:<rid>    CANCEL matching nothing                       t:probe           table sizes now
//!   ua  : a UA scenario (ua.rs) with `quiesce` in its setup
//!   stun: n client calls with / without response, then the pending count
use crate::common::*;
use parking_lot::Mutex;
use sip_core::transport::TpHandle;
use sip_core::{Endpoint, IncomingRequest, Layer, MayTake};
use sip_ua::dialog::DialogLayer;
use sip_ua::invite::InviteLayer;
use std::collections::HashMap;
use std::net::SocketAddr;
use std::sync::Arc;

struct HoldLayer {
    held: Arc<Mutex<HashMap<String, IncomingRequest>>>,
}

#[async_trait::async_trait]
impl Layer for HoldLayer {
    fn name(&self) -> &'static str {
        "hold"
    }
    async fn receive(&self, _endpoint: &Endpoint, request: MayTake<'_, IncomingRequest>) {
        let cid = request.base_headers.call_id.0.to_string();
        if let Some(rid) = cid.strip_prefix("hold-") {
            self.held.lock().insert(rid.to_string(), request.take());
        }
    }
}

fn method_of(letter: &str) -> &'static str {
    match letter {
        "i" => "INVITE",
        "b" => "BYE",
        "c" => "CANCEL",
        "o" => "OPTIONS",
        "n" => "INFO",
        "m" => "MESSAGE",
        "r" => "REGISTER",
        _ => "FOO",
    }
}

pub fn run(cases: &[Vec<String>]) {
    for case in cases {
        let id = case[0].clone();
        let c = case.clone();
        take_panics();
        let res = match case[2].as_str() {
            "tsx" => run_async_case(1, move || run_tsx(c)),
            "ua" => {
                let mut u = vec![c[0].clone(), "ua".into()];
                u.extend(c[3..].iter().cloned());
                let seed: u64 = u.get(5).and_then(|s| s.parse().ok()).unwrap_or(1);
                run_async_case(seed, move || crate::ua::run_case(u))
            }
            "conn" => {
                // id c16 conn <in|out> <history>: a connection-oriented transport through the C15 harness; the last
                // observation is taken after every handle was dropped and 70 s passed
                let u = vec![c[0].clone(), "c15".into(), c[3].clone(), c[4].clone()];
                run_async_case(1, move || crate::c15::run_case(u))
            }
            "cli" => {
                // id c16 cli <kind> <reliable> <arrivals> <horizon> <extra> <probes> ...: a client transaction through the C05 harness with
                // replayed final responses; the table-size probes (N@t:n) are what is looked at
                let mut u = vec![c[0].clone(), "c05".into()];
                u.extend(c[3..].iter().cloned());
                run_async_case(7, move || crate::tsx_client::run_case(u, false))
            }
            "stale" => {
                // id c16 stale <setup> <events>: the dialog-layer harness of C10 (events K: register_usage with keys of dialogs that
                // do not exist); its last token B=<dialogs>/<parked> is what is looked at
                let (a, b) = (c[3].clone(), c[4].clone());
                run_async_case(1, move || crate::c10::run_case(a, b, false))
            }
            "srv" => {
                // id c16 srv <kind> <reliable> <code> <t0> <events> <horizon> ...: a server transaction through the C06 harness; the
                // table size at the horizon (after every protocol timer) is what is looked at
                let mut u = vec![c[0].clone(), "c06".into()];
                u.extend(c[3..].iter().cloned());
                run_async_case(1, move || crate::tsx_server::run_case(u))
            }
            "stun" => {
                // id c16 stun <reliable> <response ms|-> <wrong-id ms|-> <mode>  -> the C20 client harness
                let mut u = vec![c[0].clone(), "c20".into(), "cli".into()];
                u.extend(c[3..].iter().cloned());
                run_async_case(1, move || crate::c20::run_cli(u))
            }
            other => Ok(format!("bad kind {}", other)),
        };
        let panics = take_panics();
        match res {
            Ok(s) if panics.is_empty() => println!("{}\t{}", id, s),
            Ok(s) => println!("{}\t{}\tPANIC {}", id, s, panics.join(" | ")),
            Err(e) => println!("{}\tPANIC {} {}", id, e, panics.join(" | ")),
        }
    }
}

async fn run_tsx(case: Vec<String>) -> String {
    let clock = Clock::new();
    let wire: WireLog = Default::default();
    let tp = TpHandle::new(MockTp::udp(wire.clone(), clock.0));
    let source: SocketAddr = "10.9.9.9:5060".parse().unwrap();
    let held: Arc<Mutex<HashMap<String, IncomingRequest>>> = Default::default();
    let mut builder = Endpoint::builder();
    builder.add_unmanaged_transport(tp.clone());
    let dl = builder.add_layer(DialogLayer::default());
    let il = builder.add_layer(InviteLayer::default());
    builder.add_layer(HoldLayer { held: held.clone() });
    let endpoint = builder.build();
    let mut sent: HashMap<String, Vec<u8>> = HashMap::new();
    let mut out: Vec<String> = vec![];

    for item in case[3].split(',').filter(|s| !s.is_empty()) {
        let p: Vec<&str> = item.split(':').collect();
        let t: u64 = p[0].parse().unwrap();
        advance_to(&clock, t).await;
        match p[1] {
            "req" | "hold" => {
                let m = method_of(p[2]);
                let rid = p[3];
                let cid = if p[1] == "hold" { format!("hold-{}", rid) } else { format!("out-{}", rid) };
                let text = format!(
                    "{m} sip:me@10.0.0.1 SIP/2.0\r\nVia: SIP/2.0/UDP 10.9.9.9:5060;branch=z9hG4bK{rid}\r\nFrom: <sip:peer@example.org>;tag=f{rid}\r\nTo: <sip:me@example.org>\r\nCall-ID: {cid}\r\nCSeq: 1 {m}\r\nMax-Forwards: 70\r\nContent-Length: 0\r\n\r\n",
                    m = m, rid = rid, cid = cid
                )
                .into_bytes();
                sent.insert(rid.to_string(), text.clone());
                inject(&endpoint, &text, source, &tp);
            }
            "retx" => {
                if let Some(text) = sent.get(p[2]) {
                    inject(&endpoint, text, source, &tp);
                }
            }
            "drop" => {
                let r = held.lock().remove(p[2]);
                drop(r);
            }
            "resp" => {
                let text = format!(
                    "SIP/2.0 {code} X\r\nVia: SIP/2.0/UDP 10.0.0.1:5060;branch=z9hG4bK{rid}\r\nFrom: <sip:me@example.org>;tag=s\r\nTo: <sip:peer@example.org>;tag=t\r\nCall-ID: stray-{rid}\r\nCSeq: 1 OPTIONS\r\nContent-Length: 0\r\n\r\n",
                    code = p[2], rid = p[3]
                );
                inject(&endpoint, text.as_bytes(), source, &tp);
            }
            "cancel" => {
                let rid = p[2];
                let text = format!(
                    "CANCEL sip:me@10.0.0.1 SIP/2.0\r\nVia: SIP/2.0/UDP 10.9.9.9:5060;branch=z9hG4bK{rid}\r\nFrom: <sip:peer@example.org>;tag=f{rid}\r\nTo: <sip:me@example.org>\r\nCall-ID: cancel-{rid}\r\nCSeq: 1 CANCEL\r\nMax-Forwards: 70\r\nContent-Length: 0\r\n\r\n",
                    rid = rid
                );
                inject(&endpoint, text.as_bytes(), source, &tp);
            }
            "ack" => {
                let rid = p[2];
                // the 481 carries a To-tag chosen by the stack: take it from the wire
                let totag = wire
                    .lock()
                    .iter()
                    .rev()
                    .map(|w| String::from_utf8_lossy(&w.2).to_string())
                    .find(|t| t.starts_with("SIP/2.0 4") && t.contains(&format!("branch=z9hG4bK{}", rid)))
                    .and_then(|t| t.lines().find(|l| l.to_ascii_lowercase().starts_with("to:")).map(|l| l.to_string()))
                    .and_then(|l| l.split("tag=").nth(1).map(|x| x.trim().to_string()))
                    .unwrap_or_default();
                let tt = if totag.is_empty() { String::new() } else { format!(";tag={}", totag) };
                let text = format!(
                    "ACK sip:me@10.0.0.1 SIP/2.0\r\nVia: SIP/2.0/UDP 10.9.9.9:5060;branch=z9hG4bK{rid}\r\nFrom: <sip:peer@example.org>;tag=f{rid}\r\nTo: <sip:me@example.org>{tt}\r\nCall-ID: out-{rid}\r\nCSeq: 1 ACK\r\nMax-Forwards: 70\r\nContent-Length: 0\r\n\r\n",
                    rid = rid, tt = tt
                );
                inject(&endpoint, text.as_bytes(), source, &tp);
            }
            "probe" => {
                settle().await;
                let c = endpoint.verif_counts();
                let d = endpoint[dl].verif_counts();
                let i = endpoint[il].verif_counts();
                out.push(format!("{}@{}:tsx{}/tp{}/dlg{}/backlog{}/cancel{}", "P", t, c.0, c.1, d.0, d.1, i));
            }
            other => panic!("bad action {}", other),
        }
        settle().await;
    }
    out.join(" ")
}
